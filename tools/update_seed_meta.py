#!/venv/bin/python
"""update_seed_meta.py <log files...>: record in every seeded/*/meta.json which checks caught the seed (from run_seed.sh output lines,
later logs override earlier ones) and what ./check selftest should expect."""
import json, os, re, sys
res = {}
for f in sys.argv[1:]:
    if not os.path.exists(f): continue
    for line in open(f, errors='replace'):
        m = re.match(r'^(\S+) (C\d\d) exit=(\d+) (\d+) violations', line)
        if m:
            res.setdefault(m.group(1), {})[m.group(2)] = int(m.group(3))
for s, d in sorted(res.items()):
    p = f'/verif/seeded/{s}/meta.json'
    if not os.path.exists(p): continue
    meta = json.load(open(p))
    meta['detected_by'] = sorted(c for c, rc in d.items() if rc == 1)
    meta['not_detected_by'] = sorted(c for c, rc in d.items() if rc == 0)
    meta['expect'] = {c: rc for c, rc in sorted(d.items())}
    meta['what_i_ran'] = 'tools/run_seed.sh (scratch worktree of /repo HEAD + patch, VERIF_REPO/VERIF_OUT, quick tier); exit 1 = VIOLATION with replay'
    json.dump(meta, open(p, 'w'), indent=1)
    print(s, meta['expect'])
