#!/bin/bash
# final pass over the seeds whose outcome depends on the matcher layers (and the three whose checks were repaired after the first matrix)
HERE="$(cd "$(dirname "$0")/.." && pwd)"
run() { "$HERE/tools/run_seed.sh" "$HERE/seeded/$1" "${@:2}"; }
run C17-b C17; run C09-b C09; run C04-b C04
run C02-b C02; run C07-b C07 C10; run C06-b C06; run C12-a C12; run C12-b C12 C02
run C02-a C02; run C07-a C07; run C10-a C10; run C10-b C10; run C01-a C01 C11; run C01-b C01; run C11-a C11; run C11-b C11
run revert-fcc6b8f C01; run revert-9271e39 C06 C10; run revert-8d29e11 C06
