#!/bin/bash
# run_seed.sh <seed-dir> <check ids...> : applies the seeded change to a scratch worktree of /repo HEAD and runs the given checks
# (of THIS copy of /verif) against it (VERIF_REPO/VERIF_OUT), then removes the worktree.  Output: one summary line per check.
HERE="$(cd "$(dirname "$0")/.." && pwd)"
D="$1"; shift; N=$(basename "$D"); W=/tmp/seedrun.$N.$$; O=/tmp/seedout.$N.$$
git -C /repo worktree add -q --detach "$W" HEAD || exit 9
( cd "$W" && git apply "$D/patch.diff" ) || { echo "$N APPLY-FAIL"; git -C /repo worktree remove --force "$W"; exit 1; }
mkdir -p "$O"
for c in "$@"; do
  VERIF_REPO="$W" VERIF_OUT="$O" "$HERE/check" $c > "$O/$c.out" 2>&1; rc=$?
  echo "$N $c exit=$rc $(grep -c '^VIOLATION' $O/$c.out) violations; $(grep '^VIOLATION' $O/$c.out | head -2 | sed 's/replay=[^ ]*//' | cut -c1-200 | tr '\n' ' ')"
done
git -C /repo worktree remove --force "$W"; rm -rf "$O"
