#!/venv/bin/python
"""accept_known.py <PROP>: after triage BY HAND, record the violations of the last run of <PROP> (evidence file) as known
findings with their exact failure signature.  Root-cause text comes from the rules below; anything unmatched is refused."""
import json, sys, re
prop = sys.argv[1]
RULES = [
    (r"KeyError: 'type'", "xml:space has an anonymous simple type: XSDAttribute.type_ raises KeyError('type') for every type using the text-formatting group"),
    (r"'NoneType' object has no attribute 'get_attributes'", "xlink:* attribute references are never resolved (NotImplementedError(ref) is built but not raised): the attribute table of link / opus / part-link types cannot be used"),
    (r'AnyURI', "xs:anyURI has no simple-type class: XSDAttribute.type_ raises NameError for the image attributes (source)"),
    (r'tail-text', "text that follows a child element (ElementTree 'tail') is dropped silently by the parser: neither kept nor reported"),
    (r'exterior-whitespace', "the parser strips leading/trailing whitespace of element text also for whitespace-preserving types (xs:string): '  hi  ' comes back as 'hi'"),
    (r'xml:lang|xml:space|lyric-language|undeclared', "attributes the schema references as xml:lang / xml:space are handled under the un-prefixed names 'lang' / 'space' (accepted, serialised without the xml: prefix; the qualified names are rejected; lyric-language loses use=required; xml:space has no resolvable type: KeyError('type'))"),
    (r"/name(/|$|@)|property 'name'", "the schema attribute 'name' collides with the read-only Python property XMLElement.name: dot assignment raises AttributeError('property ... has no setter')"),
    (r'xlink:|/link(/|$|@)|/opus(/|$|@)|/part-link(/|$|@)', "xlink:* attribute references are never resolved (NotImplementedError(ref) is built but not raised): every attribute operation on link / opus / part-link elements fails with AttributeError about None"),
    (r'source|image', "xs:anyURI has no simple-type class: validating the 'source' attribute of image / credit-image raises NameError"),
    (r'space|text-formatting', "xml:space has an anonymous simple type: XSDAttribute.type_ raises KeyError('type')"),
]
import subprocess, os
subprocess.run(['/verif/check', prop], env=dict(os.environ, VERIF_IGNORE_SIGNATURE_FINDINGS='1'), stdout=subprocess.DEVNULL, stderr=subprocess.DEVNULL)
ev = json.load(open(f'/verif/evidence/{prop}.json'))
kf = json.load(open('/verif/known_findings.json'))
kf['findings'] = [e for e in kf['findings'] if e['property'] != prop or e.get('region')]
n = 0
for o in ev['coverage']['violations_list']:
    text = o['oid'] + ' ' + (o.get('detail') or '')
    what = None
    for pat, w in RULES:
        if re.search(pat, o['oid']) or (pat in ('source|image',) and re.search(pat, text)):
            what = w; break
    if what is None:
        for pat, w in RULES:
            if re.search(pat, text):
                what = w; break
    if what is None:
        print('UNMATCHED', o['oid'], o.get('detail')); continue
    oid = re.sub(r'@(warmed|pristine|warmed-reverse)$', '', o['oid'])
    if prop == 'C03': oid = o['oid']
    if any(e['property'] == prop and e['obligation'] == oid and e.get('signature') == o.get('detail') for e in kf['findings']):
        continue
    kf['findings'].append(dict(property=prop, obligation=oid, signature=o.get('detail'), what=oid.split('/', 1)[1] + ': ' + what)); n += 1
json.dump(kf, open('/verif/known_findings.json', 'w'), indent=1, ensure_ascii=True)
print('recorded', n)
