#!/venv/bin/python
"""make_lock.py [quick] [thorough]: (re)generate obligations.lock.json from the matcher sweeps of the CURRENT tree (cached sweeps are
reused; a missing one is computed).  'proved' = discharged in the quick sweep (claimed in both tiers); 'proved_thorough' = additionally
discharged in the thorough sweep (claimed in the thorough tier only).  Run by hand on the unchanged tree only."""
import json, os, sys, subprocess, glob
env = dict(os.environ, PYTHONPATH='/verif:/verif/.deps:/repo')
code = "from pydv import instr; instr.install(); from pydv import msweep; import sys; r=msweep.sweep(sys.argv[1]); print(r['key'])"
sets = {}; props = {}
for tier in sys.argv[1:] or ['quick']:
    key = subprocess.run(['/venv/bin/python', '-W', 'ignore', '-c', code, tier], env=env, check=True, capture_output=True, text=True).stdout.strip().splitlines()[-1]
    r = json.load(open(f'/verif/.cache/msweep-{tier}-{key}.json'))
    ok = set()
    for t in r['types']:
        if any(o['status'] in ('crash',) for o in t['obligations']):
            continue
        undec = any(o['status'] == 'undecided' for o in t['obligations'])
        for o in t['obligations']:
            if o['status'] == 'discharged' and not (undec and o.get('needs_inv')):
                ok.add(o['oid']); props[o['oid']] = o['props']
        if undec:
            # a type that ran over budget is not claimed at all in this tier
            ok -= {o['oid'] for o in t['obligations']}
    sets[tier] = ok
old = json.load(open('/verif/obligations.lock.json')) if os.path.exists('/verif/obligations.lock.json') else {}
quick = sets.get('quick', set(old.get('proved', [])))
thor = sets.get('thorough', set(old.get('proved_thorough', [])) | quick) - quick
allp = dict(old.get('props', {})); allp.update(props)
json.dump({'_comment': 'obligations of pydv/msweep discharged on the unchanged tree; a check run must discharge exactly these (proved: both tiers; proved_thorough: thorough tier only)',
           'proved': sorted(quick), 'proved_thorough': sorted(thor), 'props': {k: allp[k] for k in sorted(quick | thor) if k in allp}}, open('/verif/obligations.lock.json', 'w'), indent=0)
print(len(quick), 'obligations locked for both tiers,', len(thor), 'more for the thorough tier')
