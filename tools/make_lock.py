#!/venv/bin/python
"""make_lock.py: (re)generate obligations.lock.json from the matcher sweep of the CURRENT tree: the obligations discharged
now are the ones claimed as proved from now on.  Run by hand on the unchanged tree only."""
import json, os, sys, subprocess
env = dict(os.environ, PYTHONPATH='/verif:/verif/.deps:/repo')
code = "from pydv import instr; instr.install(); from pydv import msweep; import json,sys; r=msweep.sweep(sys.argv[1]); print(r['key'])"
proved = None; props = {}
for tier in sys.argv[1:] or ['quick']:
    subprocess.run(['/venv/bin/python', '-W', 'ignore', '-c', code, tier], env=env, check=True)
    import glob
    f = sorted(glob.glob(f'/verif/.cache/msweep-{tier}-*.json'), key=os.path.getmtime)[-1]
    r = json.load(open(f))
    ok = set()
    for t in r['types']:
        if any(o['status'] in ('undecided', 'crash') for o in t['obligations']):
            continue      # a type that needs more than the budget is not claimed at all
        for o in t['obligations']:
            if o['status'] == 'discharged':
                ok.add(o['oid']); props[o['oid']] = o['props']
    proved = ok if proved is None else proved & ok
json.dump({'_comment': 'obligations of pydv/msweep that were discharged on the unchanged tree; a check run must discharge exactly these',
           'proved': sorted(proved), 'props': {k: props[k] for k in sorted(proved)}}, open('/verif/obligations.lock.json', 'w'), indent=0)
print(len(proved), 'obligations locked')
