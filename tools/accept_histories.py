#!/venv/bin/python
"""After triage BY HAND: record the failing histories of the bounded tier (quick and thorough sweeps of the CURRENT tree) as the
extent of the known findings.  One finding per (property, type); its extent is the exact set of failing histories at the bounds."""
import json, glob, os, sys, collections
sys.path.insert(0, '/verif'); sys.path.insert(0, '/verif/.deps'); sys.path.insert(0, '/repo')
from pydv import histcheck
key = histcheck.source_hash()
ext = collections.defaultdict(dict)
for tier in ('quick', 'thorough'):
    p = f'/verif/.cache/hist-{tier}-{key}.json'
    if not os.path.exists(p):
        print('missing sweep', p); continue
    r = json.load(open(p))
    for t in r['types']:
        for prop, h, d in t['fails']:
            ext[(prop, t['tkey'])].setdefault(h, d)
kh = {}
kf = json.load(open('/verif/known_findings.json'))
kf['findings'] = [e for e in kf['findings'] if not e.get('histories')]
for (prop, tkey), hs in sorted(ext.items()):
    kh.setdefault(prop, {})[tkey] = sorted(hs)
    ex = min(hs, key=lambda h: (len(h.split()), h))
    kf['findings'].append(dict(property=prop, obligation=f'{prop}/bounded/{tkey}', histories=True, count=len(hs), example=ex,
                               what=f'{tkey}: {ex}  ->  {hs[ex][:160]}  ({len(hs)} failing histories within the bounds of the two tiers; extent in known_histories.json)'))
json.dump(kh, open('/verif/known_histories.json', 'w'), indent=0)
json.dump(kf, open('/verif/known_findings.json', 'w'), indent=1, ensure_ascii=True)
print({p: sum(len(v) for v in d.values()) for p, d in kh.items()}, 'findings:', len([e for e in kf['findings'] if e.get('histories')]))
