#!/venv/bin/python
"""Regenerates MANIFEST.json from the table below and validates it.  Properties without a check are listed under not_applicable."""
import json
import os
import sys

HERE = os.path.dirname(os.path.abspath(__file__))
VERIF = os.path.dirname(HERE)
sys.path.insert(0, os.path.join(VERIF, '.deps'))

CHECKS = {
    'C05': dict(
        category='other',
        text=("Contract 'accept => normalised text in Lex(S); reject => not (normalised input in Lex(S)); raised type in {TypeError, ValueError}' on the real "
              "XSDSimpleType constructors (instrumented from /repo's source on every run), specialised to each of the 158 simple-type classes x 10 value tags x 2 "
              "global pre-states; every path's VC discharged by z3 for ALL values of the tag (unbounded ints, reals, strings); plus per complex type the "
              "simple-content delegation and the no-character-content clause.  Category 'other' rather than 'proof' because one lemma (get_cleaned_token = XSD "
              "collapse) is only bounded-checked and floats are treated as reals."),
        design_ref='DESIGN.md 5 C05',
        note=("Lex(S) from the vendored XSD via independent readers (pydv/xsdspec, pydv/rx, pydv/lex); assumed contracts of float.__repr__, str(int), re (translated from "
              "CPython's own parse tree); collapse axioms; z3 character domain <= U+2FFFF; strings with non-XSD Unicode whitespace outside the proved domain; "
              "known findings are delimited by region predicates and the obligation is proved outside them."),
        technique='contract-based deductive verification: path-wise VCs from instrumented native execution of the real constructors, discharged by z3 (strings/regex/LIA/LRA)'),
    'C03': dict(
        category='other',
        text=("Postconditions of import against the vendored schema: every finite quantifier of the property (441 element names, 228 complex types, 45 attribute groups, "
              "158 simple-type classes) is enumerated completely on the real import-time objects, in a pristine and in a warmed process state (category 'other' because 26 obligations are known findings, so not every obligation is discharged); the content-model clause is a "
              "language-equivalence proof per type (template tree and per-instance copy read back into a regex, xor-membership refuted by z3's regex theory) for all words."),
        design_ref='DESIGN.md 5 C03',
        note='xsdspec reading of the vendored XSD; z3 regex decision procedure; naming rule restated in the contract; known findings matched by exact failure signature.',
        technique='postconditions of import checked by complete enumeration + z3 regex language equivalence'),
    'C04': dict(
        category='other',
        text=("Contracts on _set_attributes/_check_attribute/__setattr__/_check_required_attributes/_create_et_xml_element per element class (441) in two global pre-states: "
              "declared keys x spellings x surfaces x callee verdicts enumerated completely against the callee contract; UNDECLARED keys as one symbolic z3 string per class and "
              "surface (all keys, discharged by z3 on the instrumented real code); required-attribute clause over all subsets; serialised names through a recording ElementTree stub."),
        design_ref='DESIGN.md 5 C04',
        note=("callee XSDAttribute.__call__ by contract (delegation checked, simple types are C05); replace_key_underline_with_hyphen by an uninterpreted hyph() with a bounded "
              "lemma; ElementTree.Element stores its arguments verbatim (assumed)."),
        technique='contract-based verification: callee-by-contract enumeration + symbolic-key VCs discharged by z3'),
    'C14': dict(
        category='other',
        text=("Contract of XMLElement.__deepcopy__ (abstract equality of result and self, identity frame on self, disjoint ownership regions) checked per element class over a "
              "complete partition of the kwargs/attributes pre-state relation, changed value and xsd_check; the children clause is bounded (in-order words up to length 2/3)."),
        design_ref='DESIGN.md 5 C14',
        note='callee contracts for attribute validation; children clause bounded and restricted to words the matcher accepts (C02).',
        technique='contract checking of the real __deepcopy__ over a complete pre-state partition (finite-complete) + bounded children clause'),
    'C17': dict(
        category='proof',
        text=("Effect contract of write() with the assumed contract of open(): the body is loop-free, both outcomes of the callee contract of to_string are enumerated (complete), "
              "the real body is additionally traced to show that nothing that can raise runs while the destination is open; every open() call site satisfies the "
              "locale-independence precondition statically (AST) and at run time."),
        design_ref='DESIGN.md 5 C17',
        note='assumed contracts of open(), ElementTree.parse on binary files; to_string by contract at the call site.',
        technique='effect contracts with assumed contract of open(); complete path enumeration of a loop-free body; call-site precondition scan'),
}

MATCHER_NOTE = ("proved layer: 70 fixed-shape duplicate-free content types, intelligent_choice=False, flag-only callees summarised exactly, get_leaves by truthiness contract, "
                "Houdini invariant; bounded layer (never counted as proved): all histories up to the tier's per-type bounds, childless children, oracle = xsdspec; "
                "known findings = committed extent of failing histories (known_histories.json).")


def _m(prop, what, proved):
    return dict(category='other',
                text=(f"{what} Two layers reported separately: PROVED -- {proved} (VCs from the instrumented real matcher code over ALL flag states and leaf occupancies, discharged by z3; "
                      "only the obligations of obligations.lock.json are claimed); BOUNDED -- run-time contracts against the reference oracle on every operation history up to the stated bounds "
                      "(adds, forward adds, removals, replacements, stale removals, failed attempts, to_string with and without intelligent choice) for all 94 content types."),
                design_ref=f'DESIGN.md 5 {prop}', note=MATCHER_NOTE,
                technique='contract-based deductive verification of the real matcher (symbolic pre-states, inductive invariant by Houdini, z3) + bounded run-time contract checking as the stated stand-in')


CHECKS.update({
    'C01': _m('C01', 'Serialised child sequences are words of the schema content model.', 'leaf typing of add_element for every state (70 types) and "final check passes => counts form a word of the schema model" under the inductive invariant (65 types)'),
    'C02': _m('C02', 'In-order valid sequences are accepted, kept in order and pass the final check.', '"counts form a word of the schema model => final check passes" under the inductive invariant (46 types); acceptance/order only bounded'),
    'C06': _m('C06', 'No child lost, duplicated or orphaned.', 'contract of add_element from EVERY flag state: exactly the returned leaf grows by exactly the child, at its end, or nothing changes on an exception (70 types x all child names x forward values)'),
    'C07': _m('C07', 'No accepted dead ends.', '"accepted => counts still completable" (quantifier-free completability predicate from the schema regex) under the invariant, per type and child name'),
    'C10': _m('C10', 'A failed operation changes nothing.', 'exceptional postcondition of add_element from every flag state: no leaf list changed, child not attached (70 types); flags/behavioural equivalence only bounded'),
    'C11': _m('C11', 'Removal restores the behaviour.', 'nothing beyond the invariant-preservation of remove (auxiliary); the property itself is decided only in the bounded layer (twin comparison)'),
    'C12': _m('C12', 'Order of insertion does not matter where the schema fixes it.', '"rejected (structural, forward=None) => not completable" under the invariant, per type and child name; unique-arrangement clause bounded'),
    'C08': dict(category='other', text=("Node lemma of the parser on the real _et_xml_to_music_xml (instrumented): for every value tag and ALL values the element's type accepts, str(v) parses back to the same value (ints stay ints); "
                                        "same through the setattr ladder for every declared attribute of every complex type; strings with interior whitespace survive verbatim. Whole-document claim = these lemmas + children visited in order + C02 + C16."),
                design_ref='DESIGN.md 5 C08', note='assumed contracts of str/repr/float/int (NumeralStr, uninterpreted py_float_of/py_int_of), str.strip identity on the proved domain, BMP texts; exponent-form floats excluded (C05 finding).',
                technique='contract-based deductive verification: symbolic values through the real parser ladder, VCs discharged by z3'),
    'C09': dict(category='other', text=("Node lemma over the schema's lexical spaces: every normalised text in Lex(type) (z3 string constrained by the reference regex/facets) is accepted by the real parser and renders back to the same text/number, for element content "
                                        "and for every declared attribute delivered under the key ElementTree produces (namespaced for xml:*); conservation obligations (children order, tail text, exterior whitespace) enumerated."),
                design_ref='DESIGN.md 5 C09', note='as C08; Lex from xsdspec; acceptance of whole documents additionally needs C02 (bounded/proved per type).',
                technique='contract-based deductive verification: symbolic lexical-space texts through the real parser, VCs discharged by z3'),
    'C13': dict(category='other', text=("Frame contracts (writes only to the owned region, the arguments, or write-once cache slots) checked by differencing a fingerprint of ALL shared state (every class dictionary, every template tree, XSD_TREE_DICT) and identity snapshots of bystander instances around "
                                        "the operations: complete over the finite class sets (158 simple types, 441 element classes), bounded over operation histories (94 content types); copy-ownership of fresh elements per type."),
                design_ref='DESIGN.md 5 C13', note='run-time frame checking (state differencing), not a static frame proof; write-once whitelist stated in the evidence.', technique='frame contracts checked by state differencing on complete class sets + bounded histories'),
    'C15': dict(category='other', text=("Dispatch contract of __setattr__/__getattr__/_convert_attribute_to_child with the explicit API replaced by recording stubs: for all 441 classes x every possible child name x {instance, None, value} x {found, not found} x read, and every declared attribute spelling, "
                                        "the recorded explicit call is exactly the one the contract names; exceptions of the explicit call propagate. The quantifiers are finite and enumerated completely."),
                design_ref='DESIGN.md 5 C15', note='callees by contract (C04/C06); pre-states built by direct list insertion.', technique='callee-by-contract dispatch verification, finite-complete'),
    'C16': dict(category='other', text=("_create_et_xml_element against a recording ElementTree stub with SYMBOLIC text and attribute value (all strings: handed on verbatim, children in view order, indent at depth) per class; purity/determinism on the real back end; "
                                        "to_string == independent rendering of the abstract state after every step of protocol-shaped interleavings on nested chains (bounded) -- catches hidden state; bounded layer: to_string has no observable effect on any history."),
                design_ref='DESIGN.md 5 C16', note='assumed ElementTree contract (sampled at run time, not proved); render scenarios and flag purity are bounded.', technique='contract verification with symbolic strings against an assumed ElementTree contract + bounded interleavings against an independent renderer'),
    'C18': dict(category='other', text=("Contracts of the xsd_check=False paths per class with a TRIPWIRE matcher: no matcher use, no exception, insertion order, frame (child back-pointer pre-states incl. children still owned by checked elements), serialisation order; "
                                        "_final_checks gating on all 8 mixed three-level trees; byte-identity with the checked twin and no structural failures on every bounded history."),
                design_ref='DESIGN.md 5 C18', note='children: up to four declared and three undeclared kinds; byte-identity clause bounded and inherits C02.', technique='contract checking with tripwire matcher (finite-complete) + bounded histories'),
    'C19': _m('C19', 'Only documented exception types, no output.', 'exception types of every add_element path from every flag state (70 types); plus all 441 classes x wrong-argument calls of every public entry point (finite-complete), static print scan, C05 exc clauses; termination NOT decided'),
    'C20': dict(category='other', text=("Sufficient sequential condition for thread safety (Owicki-Gries style global invariant): after EVERY executed library line of the first use of each of the 599 classes, every shared cache slot that first use writes is unset or already final (publish once, complete). "
                                        "Violations are replayed with two real threads pre-empted at the offending line. Not a proof over interleavings."),
                design_ref='DESIGN.md 5 C20', note='GIL atomicity of one store; readers treat a set slot as final; frame completeness from C13.', technique='global-invariant (interference-freedom) checking after every line of every first use; schedule-controlled replay'),
})

NOT_YET = "check under construction (build phase); see DESIGN.md"


def main():
    props = [json.loads(l) for l in open(os.path.join(VERIF, 'properties.jsonl'))]
    checks = []
    na = []
    for p in props:
        pid = p['id']
        c = CHECKS.get(pid)
        if c is None:
            na.append({'property_id': pid, 'reason': NA_REASONS.get(pid, NOT_YET)})
            continue
        checks.append({
            'property_id': pid,
            'quick_cmd': f'./check {pid} --tier quick',
            'thorough_cmd': f'./check {pid} --tier thorough',
            'evidence_file': f'/verif/evidence/{pid}.json',
            'replay_cmd_template': './check replay {path}',
            'engine': 'pydv',
            'level_claimed': {'category': c['category'], 'text': c['text'], 'design_ref': c['design_ref']},
            'level_note': c['note'],
            'technique': c['technique'],
        })
    m = {
        'version': 1,
        'setup_cmd': './setup.sh',
        'hooks': {
            'guard': 'MUSICXML_VERIF',
            'enable': 'no source hooks in /repo: the checks instrument the modules under contract at import time from /repo\'s current working tree (pydv/instr.py); MUSICXML_VERIF=1 is exported by ./check for form only',
            'baseline_off_cmd': 'cd /repo && /venv/bin/python -m pytest -ra -q -p no:cacheprovider --timeout=900 --continue-on-collection-errors',
            'source_commits': [],
            'add_only': True,
        },
        'engines': [{'name': 'pydv', 'path': '/verif/pydv', 'serves_properties': sorted(CHECKS),
                     'kind_free_text': 'VC generation by instrumented native execution of the real modules (symbolic proxies, decision-prefix DFS), z3/cvc5 back ends; independent XSD reference (xsdspec); native replay of every counterexample'}],
        'checks': checks,
        'notes': 'Repairs of genuine defects are unguarded "fix:" commits in /repo, listed in known_findings.json (fixed:). See DESIGN.md.',
        'not_applicable': na,
    }
    with open(os.path.join(VERIF, 'MANIFEST.json'), 'w') as f:
        json.dump(m, f, indent=1)
    import jsonschema
    jsonschema.validate(m, json.load(open('/root/.vp/MANIFEST.schema.json')))
    print('MANIFEST ok:', len(checks), 'checks,', len(na), 'not applicable')


NA_REASONS = {}

if __name__ == '__main__':
    main()
