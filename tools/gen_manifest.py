#!/venv/bin/python
"""Regenerates MANIFEST.json from the table below and validates it.  Properties without a check are listed under not_applicable."""
import json
import os
import sys

HERE = os.path.dirname(os.path.abspath(__file__))
VERIF = os.path.dirname(HERE)
sys.path.insert(0, os.path.join(VERIF, '.deps'))

CHECKS = {
    'C05': dict(
        category='other',
        text=("Contract 'accept => normalised text in Lex(S); reject => not (normalised input in Lex(S)); raised type in {TypeError, ValueError}' on the real "
              "XSDSimpleType constructors (instrumented from /repo's source on every run), specialised to each of the 158 simple-type classes x 10 value tags x 2 "
              "global pre-states; every path's VC discharged by z3 for ALL values of the tag (unbounded ints, reals, strings); plus per complex type the "
              "simple-content delegation and the no-character-content clause.  Category 'other' rather than 'proof' because one lemma (get_cleaned_token = XSD "
              "collapse) is only bounded-checked and floats are treated as reals."),
        design_ref='DESIGN.md 5 C05',
        note=("Lex(S) from the vendored XSD via independent readers (pydv/xsdspec, pydv/rx, pydv/lex); assumed contracts of float.__repr__, str(int), re (translated from "
              "CPython's own parse tree); collapse axioms; z3 character domain <= U+2FFFF; strings with non-XSD Unicode whitespace outside the proved domain; "
              "known findings are delimited by region predicates and the obligation is proved outside them."),
        technique='contract-based deductive verification: path-wise VCs from instrumented native execution of the real constructors, discharged by z3 (strings/regex/LIA/LRA)'),
    'C03': dict(
        category='proof',
        text=("Postconditions of import against the vendored schema: every finite quantifier of the property (441 element names, 228 complex types, 45 attribute groups, "
              "158 simple-type classes) is enumerated completely on the real import-time objects, in a pristine and in a warmed process state; the content-model clause is a "
              "language-equivalence proof per type (template tree and per-instance copy read back into a regex, xor-membership refuted by z3's regex theory) for all words."),
        design_ref='DESIGN.md 5 C03',
        note='xsdspec reading of the vendored XSD; z3 regex decision procedure; naming rule restated in the contract; known findings matched by exact failure signature.',
        technique='postconditions of import checked by complete enumeration + z3 regex language equivalence'),
    'C04': dict(
        category='other',
        text=("Contracts on _set_attributes/_check_attribute/__setattr__/_check_required_attributes/_create_et_xml_element per element class (441) in two global pre-states: "
              "declared keys x spellings x surfaces x callee verdicts enumerated completely against the callee contract; UNDECLARED keys as one symbolic z3 string per class and "
              "surface (all keys, discharged by z3 on the instrumented real code); required-attribute clause over all subsets; serialised names through a recording ElementTree stub."),
        design_ref='DESIGN.md 5 C04',
        note=("callee XSDAttribute.__call__ by contract (delegation checked, simple types are C05); replace_key_underline_with_hyphen by an uninterpreted hyph() with a bounded "
              "lemma; ElementTree.Element stores its arguments verbatim (assumed)."),
        technique='contract-based verification: callee-by-contract enumeration + symbolic-key VCs discharged by z3'),
    'C14': dict(
        category='other',
        text=("Contract of XMLElement.__deepcopy__ (abstract equality of result and self, identity frame on self, disjoint ownership regions) checked per element class over a "
              "complete partition of the kwargs/attributes pre-state relation, changed value and xsd_check; the children clause is bounded (in-order words up to length 2/3)."),
        design_ref='DESIGN.md 5 C14',
        note='callee contracts for attribute validation; children clause bounded and restricted to words the matcher accepts (C02).',
        technique='contract checking of the real __deepcopy__ over a complete pre-state partition (finite-complete) + bounded children clause'),
    'C17': dict(
        category='proof',
        text=("Effect contract of write() with the assumed contract of open(): the body is loop-free, both outcomes of the callee contract of to_string are enumerated (complete), "
              "the real body is additionally traced to show that nothing that can raise runs while the destination is open; every open() call site satisfies the "
              "locale-independence precondition statically (AST) and at run time."),
        design_ref='DESIGN.md 5 C17',
        note='assumed contracts of open(), ElementTree.parse on binary files; to_string by contract at the call site.',
        technique='effect contracts with assumed contract of open(); complete path enumeration of a loop-free body; call-site precondition scan'),
}

NOT_YET = "check under construction (build phase); see DESIGN.md"


def main():
    props = [json.loads(l) for l in open(os.path.join(VERIF, 'properties.jsonl'))]
    checks = []
    na = []
    for p in props:
        pid = p['id']
        c = CHECKS.get(pid)
        if c is None:
            na.append({'property_id': pid, 'reason': NA_REASONS.get(pid, NOT_YET)})
            continue
        checks.append({
            'property_id': pid,
            'quick_cmd': f'./check {pid} --tier quick',
            'thorough_cmd': f'./check {pid} --tier thorough',
            'evidence_file': f'/verif/evidence/{pid}.json',
            'replay_cmd_template': './check replay {path}',
            'engine': 'pydv',
            'level_claimed': {'category': c['category'], 'text': c['text'], 'design_ref': c['design_ref']},
            'level_note': c['note'],
            'technique': c['technique'],
        })
    m = {
        'version': 1,
        'setup_cmd': './setup.sh',
        'hooks': {
            'guard': 'MUSICXML_VERIF',
            'enable': 'no source hooks in /repo: the checks instrument the modules under contract at import time from /repo\'s current working tree (pydv/instr.py); MUSICXML_VERIF=1 is exported by ./check for form only',
            'baseline_off_cmd': 'cd /repo && /venv/bin/python -m pytest -ra -q -p no:cacheprovider --timeout=900 --continue-on-collection-errors',
            'source_commits': [],
            'add_only': True,
        },
        'engines': [{'name': 'pydv', 'path': '/verif/pydv', 'serves_properties': sorted(CHECKS),
                     'kind_free_text': 'VC generation by instrumented native execution of the real modules (symbolic proxies, decision-prefix DFS), z3/cvc5 back ends; independent XSD reference (xsdspec); native replay of every counterexample'}],
        'checks': checks,
        'notes': 'Repairs of genuine defects are unguarded "fix:" commits in /repo, listed in known_findings.json (fixed:). See DESIGN.md.',
        'not_applicable': na,
    }
    with open(os.path.join(VERIF, 'MANIFEST.json'), 'w') as f:
        json.dump(m, f, indent=1)
    import jsonschema
    jsonschema.validate(m, json.load(open('/root/.vp/MANIFEST.schema.json')))
    print('MANIFEST ok:', len(checks), 'checks,', len(na), 'not applicable')


NA_REASONS = {}

if __name__ == '__main__':
    main()
