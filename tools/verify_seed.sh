#!/bin/bash
# verify_seed.sh <dir with patch.diff demo.py>  -> prints tests/demo results on a scratch worktree of /repo HEAD
set -u
D="$1"; W=/tmp/seedcheck.$$
git -C /repo worktree add -q --detach "$W" HEAD || exit 9
cd "$W"
if ! git apply --check "$D/patch.diff" 2>/dev/null; then echo "APPLY=fail"; cd /; git -C /repo worktree remove --force "$W"; exit 1; fi
MUSICXML_ROOT="$W" PYTHONPATH="$W" /venv/bin/python -W ignore "$D/demo.py" >/dev/null 2>&1; echo "DEMO_CLEAN_RC=$?"
git apply "$D/patch.diff"
T=$(PYTHONPATH="$W" /venv/bin/python -m pytest -q -p no:cacheprovider --timeout=900 2>&1 | tail -1); echo "TESTS=$T"
MUSICXML_ROOT="$W" PYTHONPATH="$W" /venv/bin/python -W ignore "$D/demo.py" >/dev/null 2>&1; echo "DEMO_PATCHED_RC=$?"
cd /; git -C /repo worktree remove --force "$W"
