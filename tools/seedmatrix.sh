#!/bin/bash
# seeded-change matrix: every seed against its own property's check and the neighbouring ones (run from a snapshot: vp run -- ./tools/seedmatrix.sh)
HERE="$(cd "$(dirname "$0")/.." && pwd)"
run() { "$HERE/tools/run_seed.sh" "$HERE/seeded/$1" "${@:2}"; }
run C17-a C17; run C17-b C17; run C15-a C15; run C14-a C14; run C14-b C14 C13; run C18-a C18; run C16-a C16; run C16-b C16; run C08-a C08; run C09-a C09 C04; run C09-b C09 C08; run C04-b C04 C13
run revert-7259d51 C17; run revert-7c25746 C17; run revert-ba14267 C14; run revert-3a6fc98 C05; run revert-7859881 C05; run revert-b781fc0 C05
run C05-a C05 C13; run C13-a C13 C05; run C13-b C13 C04 C03; run C03-a C03 C04 C13; run C04-a C04 C03 C13; run C19-a C19 C05; run C20-a C20 C13; run revert-c633b15 C20
run revert-7084296 C19; run revert-1cb8f3a C19; run revert-fcc6b8f C01; run revert-9271e39 C06 C10; run revert-8d29e11 C06
run C10-a C10 C12 C06; run C10-b C10 C06; run C06-b C06 C01; run C01-a C01 C11 C12 C06; run C01-b C01 C11; run C02-a C02 C12; run C02-b C02 C01
run C07-a C07 C10; run C07-b C07 C01 C10; run C11-a C11 C01; run C11-b C11 C01; run C12-a C12; run C12-b C12 C02
