"""C14: deepcopy serialises identically (attributes set/removed after construction) and leaves the original untouched.
exit 1 iff violated."""
import sys, copy, warnings; warnings.simplefilter('ignore'); sys.path.insert(0, '/repo')
from musicxml.xmlelement.xmlelement import *
bad = 0
a = XMLAccent(); a.placement = 'above'
c = copy.deepcopy(a)
print(a.to_string().strip(), '|', c.to_string().strip())
if a.to_string() != c.to_string(): bad = 1
b = XMLAccent(placement='below'); b.placement = None
c = copy.deepcopy(b)
print(b.to_string().strip(), '|', c.to_string().strip())
if b.to_string() != c.to_string(): bad = 1
e = XMLAccent(placement='below'); d0 = e._attributes
copy.deepcopy(e)
print('original attribute dict object replaced by copy():', e._attributes is not d0)
if e._attributes is not d0: bad = 1
sys.exit(bad)
