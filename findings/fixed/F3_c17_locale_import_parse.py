"""C17: importing the package and parsing a UTF-8 file must not depend on the locale's default text encoding.
exit 1 iff violated."""
import sys, os, tempfile, subprocess
d = tempfile.mkdtemp(); p = os.path.join(d, 'in.xml')
open(p, 'wb').write('<?xml version="1.0" encoding="UTF-8"?>\n<score-partwise version="4.0"><movement-title>Grüße ♫</movement-title><part-list><score-part id="P1"><part-name>x</part-name></score-part></part-list><part id="P1"><measure number="1"/></part></score-partwise>'.encode('utf-8'))
code = r'''
import sys,warnings; warnings.simplefilter('ignore'); sys.path.insert(0,'/repo')
from musicxml.parser.parser import parse_musicxml
s=parse_musicxml(sys.argv[1])
t=s.xml_movement_title.value_
sys.stdout.buffer.write(t.encode('utf-8'))
'''
bad = 0
for loc in ('C.UTF-8', 'C'):
    env = dict(os.environ, LC_ALL=loc, LANG=loc, PYTHONUTF8='0', PYTHONCOERCECLOCALE='0'); env.pop('PYTHONIOENCODING', None)
    r = subprocess.run([sys.executable, '-c', code, p], env=env, capture_output=True)
    got = r.stdout.decode('utf-8', 'replace')
    print(loc, 'rc', r.returncode, repr(got), r.stderr.decode()[-200:].strip().splitlines()[-1:] )
    if r.returncode != 0 or got != 'Grüße ♫': bad = 1
sys.exit(bad)
