"""C17: write(path) raising because validation fails must leave the previous content of path untouched;
and the file must be UTF-8 whatever the locale. exit 1 iff violated."""
import sys, os, tempfile, warnings, subprocess; warnings.simplefilter('ignore')
sys.path.insert(0, '/repo')
from musicxml.xmlelement.xmlelement import *
d = tempfile.mkdtemp(); p = os.path.join(d, 'x.xml')
open(p, 'w', encoding='utf-8').write('PREVIOUS')
s = XMLScorePartwise()          # incomplete: part-list / part missing
bad = 0
try:
    s.write(p)
    print('write did not raise?'); bad = 1
except Exception as e:
    print('write raised', type(e).__name__)
after = open(p, encoding='utf-8').read()
print('content after failed write:', repr(after))
if after != 'PREVIOUS': bad = 1
# locale half: non-ascii text under LC_ALL=C / PYTHONUTF8=0 / PYTHONIOENCODING unset
code = r'''
import sys,warnings; warnings.simplefilter('ignore'); sys.path.insert(0,'/repo')
from musicxml.xmlelement.xmlelement import *
s=XMLScorePartwise(xsd_check=False); s.add_child(XMLMovementTitle('Gr\u00fc\u00dfe \u266b'))
s.write(sys.argv[1])
'''
env = dict(os.environ, LC_ALL='C', LANG='C', PYTHONUTF8='0', PYTHONCOERCECLOCALE='0'); env.pop('PYTHONIOENCODING', None)
q = os.path.join(d, 'y.xml')
r = subprocess.run([sys.executable, '-c', code, q], env=env, capture_output=True, text=True)
print('C-locale write rc', r.returncode, r.stderr.strip().splitlines()[-1:] )
if r.returncode != 0: bad = 1
else:
    data = open(q, 'rb').read()
    try:
        ok = 'Grüße ♫' in data.decode('utf-8')
    except UnicodeDecodeError:
        ok = False
    print('utf-8 content ok:', ok)
    if not ok: bad = 1
sys.exit(bad)
