"""C06/C10: add_child(c, forward=i) onto a leaf that is already full must fail without changing anything.
exit 1 iff the two children views disagree afterwards."""
import sys, warnings; warnings.simplefilter('ignore'); sys.path.insert(0, '/repo')
from musicxml.xmlelement.xmlelement import *
p = XMLPitch(); p.add_child(XMLStep('A'))
try:
    p.add_child(XMLStep('B'), forward=0)
    print('accepted?!')
except Exception as e:
    print('raised', type(e).__name__)
o = [c.value_ for c in p.get_children(ordered=True)]; u = [c.value_ for c in p.get_children(ordered=False)]
print('ordered', o, 'insertion', u)
sys.exit(1 if sorted(o) != sorted(u) else 0)
