"""C06: after replace_child(<callable>, new) the replaced child must report no parent. exit 1 iff violated."""
import sys, warnings; warnings.simplefilter('ignore'); sys.path.insert(0, '/repo')
from musicxml.xmlelement.xmlelement import *
p = XMLPitch(); st = p.add_child(XMLStep('A')); p.add_child(XMLOctave(4))
f = lambda ch: ch.name == 'step'
new = p.replace_child(f, XMLStep('B'))
print('old parent:', st.get_parent(), ' function got _parent attr:', getattr(f, '_parent', 'absent'))
sys.exit(1 if (st.get_parent() is not None or hasattr(f, '_parent')) else 0)
