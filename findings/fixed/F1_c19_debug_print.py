"""C19: library writes to stdout from inside add_child (debug print in _check_choices_intelligently).
exit 1 iff something is written to stdout/stderr."""
import sys, io, contextlib, warnings; warnings.simplefilter('ignore')
sys.path.insert(0, '/repo')
from musicxml.xmlelement.xmlelement import *
buf = io.StringIO(); err = io.StringIO()
with contextlib.redirect_stdout(buf), contextlib.redirect_stderr(err):
    n = XMLNote()
    n.add_child(XMLGrace())        # commits the grace alternative
    n.add_child(XMLPitch())
    try:
        n.add_child(XMLDuration(1))    # incompatible with grace -> matcher tries re-homing
    except Exception:
        pass
out = buf.getvalue() + err.getvalue()
print('captured output:', repr(out))
sys.exit(1 if out else 0)
