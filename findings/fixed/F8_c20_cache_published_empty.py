"""C20: a thread pre-empted inside the first get_xsd_attributes() of a type must not let another thread see a
partially filled attribute table. Thread A is stopped (trace hook) right after the table is published; thread B then
sets a valid attribute. exit 1 iff B gets an error it would not get alone."""
import sys, threading, warnings; warnings.simplefilter('ignore'); sys.path.insert(0, '/repo')
from musicxml.xmlelement.xmlelement import *
from musicxml.xsd.xsdcomplextype import XSDComplexTypeEmptyPlacement as T
assert T._XSD_ATTRIBUTES is None
resume = threading.Event(); paused = threading.Event(); res = {}
def tracer(frame, event, arg):
    if frame.f_code.co_name == 'get_xsd_attributes' and 'xsdcomplextype' in frame.f_code.co_filename:
        def local(frame, event, arg):
            if event == 'line' and isinstance(T.__dict__.get('_XSD_ATTRIBUTES'), list) and not paused.is_set():
                paused.set(); resume.wait(10)
            return local
        return local
    return None
def A():
    sys.settrace(tracer)
    try: res['A'] = XMLAccent(placement='above').to_string()
    except Exception as e: res['A'] = repr(e)
    finally: sys.settrace(None)
def B():
    try: res['B'] = XMLAccent(placement='above').to_string()
    except Exception as e: res['B'] = repr(e)
ta = threading.Thread(target=A); ta.start(); paused.wait(10)
tb = threading.Thread(target=B); tb.start(); tb.join(10); resume.set(); ta.join(10)
print(res)
sys.exit(0 if res.get('A') == res.get('B') == '<accent placement="above" />\n' else 1)
