"""C05: a token value is checked in its whitespace-collapsed form and written out verbatim; the collapse must therefore be
XSD's (#x20 #x9 #xA #xD only).  Before fix 5e572bd get_cleaned_token() also stripped U+00A0, U+0085, U+3000 ... at the edges
of the chunks it splits, so values that no validator accepts passed.  exit 1 iff such a value is accepted."""
import sys, warnings; warnings.simplefilter('ignore'); sys.path.insert(0, '/repo')
from musicxml.xmlelement.xmlelement import *
bad = 0
for what, mk in (("XMLSound(time_only='\\u00a01')", lambda: XMLSound(time_only='\u00a01')),
                 ("XMLEnding(number='1,\\u00a0 2', type='start')", lambda: XMLEnding(number='1,\u00a0 2', type='start')),
                 ("XMLEnding(number='1,\\u3000 2', type='start')", lambda: XMLEnding(number='1,\u3000 2', type='start'))):
    try:
        print(what, 'accepted and written as', ascii(mk().to_string()))
        bad = 1
    except ValueError as ex:
        print(what, 'rejected')
sys.exit(bad)
