#!/bin/bash
# Build the offline python overlay: z3-solver, cvc5, jsonschema from the wheelhouse into /verif/.deps
set -e
cd "$(dirname "$0")"
if [ ! -f .deps/.ok ]; then
  rm -rf .deps
  PIP_NO_INDEX=1 /venv/bin/python -m pip install -q --no-index --find-links /opt/veriftools/wheels --target .deps z3-solver cvc5 jsonschema >/dev/null 2>&1
  PYTHONPATH=.deps /venv/bin/python -c "import z3, cvc5, jsonschema" && touch .deps/.ok
fi
