"""Bounded tier: run-time contracts evaluated on ALL operation histories up to a stated bound, against the reference
oracle (pydv/xsdspec).  Never counted as proved.  Runs on the real, un-instrumented library.

A history is a tuple of ops on ONE element of type T (children are fresh, childless elements of the named kind):
   ('add', a)            e.add_child(child(a))
   ('addf', a, i)        e.add_child(child(a), forward=i)
   ('rm', j)             e.remove(j-th child of the insertion view)
   ('rep', j, b)         e.replace_child(j-th child of the insertion view, child(b))
   ('repc', j)           e.replace_child(<function selecting the j-th child>, new child of the same kind)
   ('selfrep', j)        e.replace_child(c, c) for the j-th child c
   ('rmk', k)            e.remove(k-th child ever created in this history) -- also children that are no longer (or never were) attached
   ('set', a)            e.xml_<a> = child(a)            (shortcut syntax)
   ('unset', a)          e.xml_<a> = None
   ('str', ic)           e.to_string(intelligent_choice=ic)
State is never observed in place (observation may itself have effects): every observation replays the history on a fresh
element and then looks.  observe(h) = (ordered names, insertion names, verdict of to_string, acceptance vector of every
possible next child).
"""
import contextlib
import io
import itertools
import sys

from . import xsdspec


class Lib:
    """handle on the real library (imported from sys.path as set by the caller)"""

    def __init__(self):
        import musicxml.xmlelement.xmlelement as X
        import musicxml.xmlelement.exceptions as XE
        import musicxml.exceptions as ME
        self.X = X
        self.XE = XE
        self.ME = ME
        self.documented = tuple(c for m in (XE, ME) for c in vars(m).values() if isinstance(c, type) and issubclass(c, Exception)) + (TypeError, ValueError)
        self.structural = tuple(c for c in vars(XE).values() if isinstance(c, type) and issubclass(c, Exception))
        from .elem import element_table, valid_value
        self.table = element_table()
        self.valid_value = valid_value
        self._req = {}

    def cls(self, name):
        return getattr(self.X, self.table[name][0])

    def child(self, name, check=False):
        tkey = self.table[name][1]
        v = self.valid_value(tkey)
        c = self.cls(name)
        return c(v, xsd_check=check) if v != '' else c(xsd_check=check)

    def required_attrs(self, name):
        if name not in self._req:
            from .elem import declared_attrs
            from .checks.c05 import _witness
            tkey = self.table[name][1]
            out = {}
            for qn, tname, req in (declared_attrs(tkey) if tkey in xsdspec.ALL_CT else []):
                if req and tname in xsdspec.SIMPLE and ':' not in qn:
                    out[qn.replace('-', '_')] = _witness(xsdspec.SIMPLE[tname])
            self._req[name] = out
        return self._req[name]

    def fresh(self, name, check=True):
        tkey = self.table[name][1]
        v = self.valid_value(tkey)
        c = self.cls(name)
        kw = self.required_attrs(name)
        return c(v, xsd_check=check, **kw) if v != '' else c(xsd_check=check, **kw)


def apply_op(lib, e, op, kids):
    """applies op; kids: list of children created so far in creation order (for stable references). returns outcome string"""
    k = op[0]
    try:
        if k == 'add':
            c = lib.child(op[1]); kids.append(c)
            e.add_child(c)
        elif k == 'addf':
            c = lib.child(op[1]); kids.append(c)
            e.add_child(c, forward=op[2])
        elif k == 'rm':
            ch = e.get_children(ordered=False)
            if op[1] >= len(ch):
                return 'n/a'
            e.remove(ch[op[1]])
        elif k == 'rmk':
            # remove the op[1]-th child ever created for this history, attached or not (stale references included)
            if op[1] >= len(kids):
                return 'n/a'
            e.remove(kids[op[1]])
        elif k == 'rep':
            ch = e.get_children(ordered=False)
            if op[1] >= len(ch):
                return 'n/a'
            c = lib.child(op[2]); kids.append(c)
            e.replace_child(ch[op[1]], c)
        elif k == 'selfrep':
            # replace a child by itself (what `e.xml_x = e.xml_x` does)
            ch = e.get_children(ordered=False)
            if op[1] >= len(ch):
                return 'n/a'
            e.replace_child(ch[op[1]], ch[op[1]])
        elif k == 'repc':
            # replace_child(<callable selecting the op[1]-th child>, new child of the same kind)
            ch = e.get_children(ordered=False)
            if op[1] >= len(ch):
                return 'n/a'
            target = ch[op[1]]
            c = lib.child(target.name); kids.append(c)
            e.replace_child(lambda x, t=target: x is t, c)
        elif k == 'set':
            c = lib.child(op[1]); kids.append(c)
            setattr(e, 'xml_' + op[1].replace('-', '_'), c)
        elif k == 'unset':
            setattr(e, 'xml_' + op[1].replace('-', '_'), None)
        elif k == 'str':
            e.to_string(intelligent_choice=op[1])
        else:
            raise KeyError(k)
        return 'ok'
    except Exception as ex:
        return 'exc:' + type(ex).__name__


def run(lib, name, h, check=True):
    """fresh element of kind `name`, ops applied; returns (element, outcomes, kids, captured output)"""
    buf = io.StringIO()
    with contextlib.redirect_stdout(buf), contextlib.redirect_stderr(buf):
        e = lib.fresh(name, check)
        kids = []
        outs = [apply_op(lib, e, op, kids) for op in h]
    return e, outs, kids, buf.getvalue()


def views(e):
    return ([c.name for c in e.get_children(ordered=True)], [c.name for c in e.get_children(ordered=False)])


def verdict(e, ic=False):
    import xml.etree.ElementTree as ET
    try:
        s = e.to_string(intelligent_choice=ic)
    except Exception as ex:
        return ('exc', type(ex).__name__)
    try:
        r = ET.fromstring(s)
        return ('ok', tuple(ch.tag for ch in r))
    except Exception as ex:
        return ('malformed', type(ex).__name__)


def observe(lib, name, h, alphabet, check=True, probes=True):
    e, outs, kids, out = run(lib, name, h, check)
    o, u = views(e)
    obs = {'ordered': tuple(o), 'insertion': tuple(sorted(u)), 'outs': tuple(outs)}
    e2, _, _, _ = run(lib, name, h, check)
    obs['verdict'] = verdict(e2)
    if probes:
        acc = []
        for a in alphabet:
            e3, outs3, _, _ = run(lib, name, tuple(h) + (('add', a),), check)
            acc.append(outs3[-1] == 'ok')
        obs['accepts'] = tuple(acc)
    return obs


def present_model(h, outs):
    """multiset of child kinds the element should hold after h (spec of add/remove/replace), as a sorted list of names;
    None if the history contains an op whose target cannot be determined from the model (never here)"""
    cur = []          # insertion list of names
    ids = []          # creation index of each attached child
    nkid = -1
    for op, out in zip(h, outs):
        k = op[0]
        if k in ('add', 'addf', 'rep', 'set', 'repc'):
            nkid += 1            # a child object is created whether or not the op succeeds
        if out != 'ok':
            continue
        if k in ('add', 'addf'):
            cur.append(op[1]); ids.append(nkid)
        elif k == 'rm':
            del cur[op[1]]; del ids[op[1]]
        elif k == 'rep':
            cur[op[1]] = op[2]
            ids[op[1]] = nkid
        elif k == 'repc':
            ids[op[1]] = nkid
        elif k == 'rmk':
            if op[1] in ids:
                j = ids.index(op[1]); del cur[j]; del ids[j]
        elif k == 'set':
            # shortcut: replaces the first child of that kind if there is one, else adds
            if op[1] in cur:
                cur[cur.index(op[1])] = op[1]
            else:
                cur.append(op[1])
        elif k == 'unset':
            if op[1] in cur:
                cur.remove(op[1])
    return cur


def present_ids(h, outs):
    """creation indices (into kids) of the children the element should hold after h, in insertion order"""
    cur, ids, nkid = [], [], -1
    for op, out in zip(h, outs):
        k = op[0]
        if k in ('add', 'addf', 'rep', 'set', 'repc'):
            nkid += 1
        if out != 'ok':
            continue
        if k in ('add', 'addf'):
            cur.append(op[1]); ids.append(nkid)
        elif k == 'rm':
            del cur[op[1]]; del ids[op[1]]
        elif k == 'rep':
            cur[op[1]] = op[2]; ids[op[1]] = nkid
        elif k == 'repc':
            ids[op[1]] = nkid
        elif k == 'rmk':
            if op[1] in ids:
                j = ids.index(op[1]); del cur[j]; del ids[j]
        elif k == 'set':
            if op[1] in cur:
                ids[cur.index(op[1])] = nkid
            else:
                cur.append(op[1]); ids.append(nkid)
        elif k == 'unset':
            if op[1] in cur:
                j = cur.index(op[1]); del cur[j]; del ids[j]
    return ids


def parikh(names):
    d = {}
    for n in names:
        d[n] = d.get(n, 0) + 1
    return d


_COMP = {}


def completable(tkey, counts):
    key = (tkey, tuple(sorted(counts.items())))
    if key not in _COMP:
        _COMP[key] = xsdspec.parikh_completable(xsdspec.MODELS[tkey], counts)
    return _COMP[key]


def in_language(tkey, word):
    return xsdspec.matches(xsdspec.MODELS[tkey], list(word))


def histories(alphabet, k_add, with_rm=True, with_rep=True, dup_names=(), k_after=1, k_add_only=0):
    """history shapes: all add-sequences up to k_add; then optionally one removal / replacement at any position and up to
    k_after further adds; forward variants for names that occur in several leaves"""
    adds = [('add', a) for a in alphabet]
    for k in range(0, max(k_add, k_add_only) + 1):
        for seq in itertools.product(adds, repeat=k):
            yield tuple(seq)
    if with_rm:
        for k in range(1, k_add + 1):
            for seq in itertools.product(adds, repeat=k):
                for j in range(k):
                    base = tuple(seq) + (('rm', j),)
                    yield base
                    for t in range(1, k_after + 1):
                        for tail in itertools.product(adds, repeat=t):
                            yield base + tuple(tail)
    if with_rep:
        for k in range(1, max(1, k_add)):
            for seq in itertools.product(adds, repeat=k):
                for j in range(k):
                    for b in alphabet:
                        yield tuple(seq) + (('rep', j, b),)
                    # same-kind replacement followed by removal of the replaced (now stale) child, and a double removal
                    a = seq[j][1]
                    yield tuple(seq) + (('repc', j),)
                    yield tuple(seq) + (('rep', j, a), ('rmk', j))
                    yield tuple(seq) + (('rm', j), ('rmk', j))
    # shortcut syntax: xml_a = child / xml_a = None after up to min(k_add, 2) adds
    for k in range(0, (min(k_add, 2) if len(alphabet) <= 8 else 1) + 1):
        for seq in itertools.product(adds, repeat=k):
            for a in alphabet:
                yield tuple(seq) + (('set', a),)
                if any(op[1] == a for op in seq):
                    yield tuple(seq) + (('unset', a),)
    # a serialisation in the MIDDLE of a history (memoised verdicts must not survive later mutations), and self-replacement
    for k in range(1, min(k_add, 2 if len(alphabet) <= 12 else 1) + 1):
        for seq in itertools.product(adds, repeat=k):
            for j in range(k):
                yield tuple(seq) + (('str', False), ('rm', j))
                yield tuple(seq) + (('selfrep', j), ('rm', j))
            if len(alphabet) <= 12:
                for a in alphabet:
                    yield tuple(seq) + (('str', False), ('add', a))
    # explicit forward=0 for every name (a legal index whenever the name has a leaf), after short add-sequences
    for k in range(0, min(k_add, 2 if len(alphabet) <= 12 else 1) + 1):
        for seq in itertools.product(adds, repeat=k):
            for a in alphabet:
                if a not in dup_names:
                    yield tuple(seq) + (('addf', a, 0),)
    for a in dup_names:
        for i in range(0, 3):
            for k in range(0, max(0, k_add - 1) + 1):
                for seq in itertools.product(adds, repeat=k):
                    yield tuple(seq) + (('addf', a, i),)
