"""Lexical-space predicates of the reference simple types as z3 formulas (reference side of C05/C04/C08/C09).

lex_str(d, s)        -- string term s (already whitespace-normalised) is in the lexical space of SimpleDef d
lex_int(d, n)        -- the canonical decimal numeral of integer term n is in Lex(d)   (value-space statement)
lex_real(d, x)       -- a decimal numeral denoting real x is in Lex(d) as far as facets go (value space)
lex_const(d, text)   -- concrete text, decided natively with the same formulas
Whitespace: ws_collapse(text) is the XSD 'collapse' function on concrete strings; COLLAPSE is its uninterpreted twin
in formulas, axiomatised by `collapse_axioms`.
"""
from fractions import Fraction
import z3
from . import rx

XSD_WS = ' \t\n\r'


def ws_collapse(t):
    for c in '\t\n\r':
        t = t.replace(c, ' ')
    return ' '.join(p for p in t.split(' ') if p != '')


def ws_replace(t):
    for c in '\t\n\r':
        t = t.replace(c, ' ')
    return t


def ws_apply(d, t):
    return {'preserve': lambda x: x, 'replace': ws_replace, 'collapse': ws_collapse}[d.ws](t)


COLLAPSE = z3.Function('xsd_collapse', z3.StringSort(), z3.StringSort())
_NW = rx.charset_re(rx._neg([(0x20, 0x20), (0x9, 0xA), (0xD, 0xD)]))
NO_WS_RE = z3.Star(_NW)
COLLAPSED_RE = z3.Option(z3.Concat(z3.Plus(_NW), z3.Star(z3.Concat(z3.Re(z3.StringVal(' ')), z3.Plus(_NW)))))
# python str.strip()/split() whitespace that XSD does not treat as whitespace
EXOTIC = [(0xB, 0xC), (0x1C, 0x1F), (0x85, 0x85), (0xA0, 0xA0), (0x1680, 0x1680), (0x2000, 0x200A), (0x2028, 0x2029),
          (0x202F, 0x202F), (0x205F, 0x205F), (0x3000, 0x3000)]
NO_EXOTIC_RE = z3.Star(rx.charset_re(rx._neg(EXOTIC)))


def not_collapsed(v):
    """v is NOT in whitespace-collapsed form, written without regex complement (cheaper for the solver)"""
    sp = z3.StringVal(' ')
    return z3.Or(z3.PrefixOf(sp, v), z3.SuffixOf(sp, v), z3.Contains(v, z3.StringVal('  ')), z3.Contains(v, z3.StringVal('\t')),
                 z3.Contains(v, z3.StringVal('\n')), z3.Contains(v, z3.StringVal('\r')))


REGIONS = {}


def region(name, term):
    """named sub-domains used to delimit known findings (known_findings.json: 'region')"""
    if name == 'astral':            # string contains a code point >= U+10000
        return z3.Not(z3.InRe(term, z3.Star(rx.charset_re([(0, 0xFFFF)]))))
    if name == 'float-exponent-form':   # repr(x) is in exponent notation
        from . import values
        return z3.Not(values.float_repr_is_decimal(term))
    if name == 'date-bad-day':
        return z3.InRe(term, _bad_dates_re())
    if name == 'date-year-0000':
        return z3.InRe(term, rx.xsd_regex(r'-?0000-.*'))
    if name == 'date-tz-over-14':
        return z3.InRe(term, rx.xsd_regex(r'.*(\+|-)(14:(0[1-9]|[1-5][0-9])|(1[5-9]|2[0-9]):[0-5][0-9])'))
    if name == 'non-collapsed':
        return z3.Not(z3.InRe(term, COLLAPSED_RE))
    if name == 'whitespace-only':
        return z3.InRe(term, z3.Plus(rx.charset_re([(0x20, 0x20), (0x9, 0xA), (0xD, 0xD)])))
    if name == 'language-long-subtag':
        return z3.InRe(term, rx.xsd_regex(r'[iI]-[a-zA-Z]{9,}.*'))
    raise KeyError(name)


def collapse_axioms(v, literals=()):
    """true lemmas about XSD collapse, instantiated for term v and for the given concrete literals"""
    ax = [z3.InRe(COLLAPSE(v), COLLAPSED_RE),
          z3.Implies(z3.InRe(v, COLLAPSED_RE), COLLAPSE(v) == v),
          COLLAPSE(COLLAPSE(v)) == COLLAPSE(v),
          (z3.Length(COLLAPSE(v)) == 0) == z3.InRe(v, z3.Star(rx.charset_re([(0x20, 0x20), (0x9, 0xA), (0xD, 0xD)])))]
    for lit in literals:
        ax.append(COLLAPSE(z3.StringVal(lit)) == z3.StringVal(ws_collapse(lit)))
    return ax


_re_cache = {}


def _xsd_re(p):
    if p not in _re_cache:
        _re_cache[p] = rx.xsd_regex(p)
    return _re_cache[p]


def _facets(d, x, to=lambda q: z3.RealVal(str(Fraction(q)))):
    out = []
    if d.min_incl is not None: out.append(x >= to(d.min_incl))
    if d.max_incl is not None: out.append(x <= to(d.max_incl))
    if d.min_excl is not None: out.append(x > to(d.min_excl))
    if d.max_excl is not None: out.append(x < to(d.max_excl))
    return out


def lex_int(d, n):
    """integer value n written as its canonical numeral"""
    if d.prim == 'union':
        return z3.Or([lex_int(m, n) for m in d.members] + [z3.BoolVal(False)])
    if d.prim in ('integer', 'decimal'):
        if d.enums is not None or d.patterns:
            raise NotImplementedError('numeric type with enumeration/pattern')
        return z3.And(_facets(d, n, to=lambda q: z3.IntVal(int(q)) if Fraction(q).denominator == 1 else z3.RealVal(str(Fraction(q)))) + [z3.BoolVal(True)])
    if d.prim == 'string' and d.enums is None and not d.patterns and d.builtin_pattern is None and not d.min_length:
        return z3.BoolVal(True)          # unconstrained string type: every numeral is in it
    if d.prim == 'string' and d.enums is not None and not any(_is_int_numeral(e) for e in d.enums):
        return z3.BoolVal(False)
    if d.prim == 'date':
        return z3.BoolVal(False)
    return None                          # not decidable in value space -> caller reports undecided if it matters


def _is_int_numeral(e):
    return e.lstrip('-').isdigit()


def lex_real(d, x):
    """finite real x written as *some* decimal numeral (the numeral-form side condition is separate)"""
    if d.prim == 'union':
        parts = [lex_real(m, x) for m in d.members]
        if any(p is None for p in parts):
            return None
        return z3.Or(parts + [z3.BoolVal(False)])
    if d.prim == 'decimal':
        return z3.And(_facets(d, x) + [z3.BoolVal(True)])
    if d.prim == 'integer':
        return z3.BoolVal(False)         # a float's repr always has a '.' or an exponent: never an integer numeral
    if d.prim == 'string' and d.enums is None and not d.patterns and d.builtin_pattern is None and not d.min_length:
        return z3.BoolVal(True)
    if d.prim == 'string' and d.enums is not None:
        return z3.BoolVal(False) if not any(_looks_float(e) for e in d.enums) else None
    if d.prim == 'date':
        return z3.BoolVal(False)
    return None


def _looks_float(e):
    try:
        float(e)
        return True
    except ValueError:
        return False


def lex_str(d, s):
    """s: z3 string term holding the whitespace-normalised text"""
    if d.prim == 'union':
        return z3.Or([lex_str(m, s) for m in d.members] + [z3.BoolVal(False)])
    cs = []
    if d.prim == 'string':
        pass
    elif d.prim == 'decimal':
        cs.append(z3.InRe(s, rx.decimal_re()))
        if _facets(d, z3.RealVal(0)):
            cs.append(_numeral_facets(d, s))
    elif d.prim == 'integer':
        cs.append(z3.InRe(s, rx.integer_re()))
        if _facets(d, z3.RealVal(0)):
            cs.append(_numeral_facets(d, s))
    elif d.prim == 'date':
        cs.append(z3.InRe(s, rx.date_re()))
        cs.append(z3.Not(z3.InRe(s, _bad_dates_re())))
    if d.enums is not None:
        cs.append(z3.Or([s == z3.StringVal(e) for e in d.enums] + [z3.BoolVal(False)]))
    for p in d.patterns:
        cs.append(z3.InRe(s, _xsd_re(p)))
    if d.builtin_pattern:
        cs.append(z3.InRe(s, rx.builtin_re(d.builtin_pattern)))
    if d.min_length:
        cs.append(z3.Length(s) >= d.min_length)
    return z3.And(cs + [z3.BoolVal(True)])


def _numeral_facets(d, s):
    """facets of a numeric type on a numeral *string*: only the sign-level facets that occur in the schema's unions are
    expressed (>= 0, > 0, >= 1 for integers); anything else is left out (None would make the clause undecided)"""
    pos_int = rx.xsd_regex(r'\+?0*[1-9][0-9]*')
    nonneg_int = rx.xsd_regex(r'(\+?[0-9]+|-0+)')
    if d.prim == 'integer' and (d.min_incl, d.max_incl, d.min_excl, d.max_excl) == ('1', None, None, None):
        return z3.InRe(s, pos_int)
    if d.prim == 'integer' and (d.min_incl, d.max_incl, d.min_excl, d.max_excl) == ('0', None, None, None):
        return z3.InRe(s, nonneg_int)
    raise NotImplementedError('numeral facets for strings: ' + d.name)


_bad = None


def _bad_dates_re():
    """lexically well-formed but non-existent days: 02-30, 02-31, 04-31, 06-31, 09-31, 11-31 (Feb 29 of non-leap years is
    not excluded here: the reference is deliberately the weaker one on that point)"""
    global _bad
    if _bad is None:
        _bad = rx.xsd_regex(r'-?[0-9]+-(02-(30|31)|(04|06|09|11)-31).*')
    return _bad


def _raise(msg):
    raise NotImplementedError(msg)


def lex_const(d, text):
    """concrete text (not yet normalised) against d"""
    import re
    if d.prim == 'union':
        return any(lex_const(m, text) for m in d.members)
    t = ws_apply(d, text)
    if d.prim in ('decimal', 'integer'):
        pat = r'[+-]?[0-9]+' if d.prim == 'integer' else r'[+-]?([0-9]+(\.[0-9]*)?|\.[0-9]+)'
        if not re.fullmatch(pat, t) or d.enums is not None or d.patterns:
            return False if re.fullmatch(pat, t) is None else _raise('numeric type with enum/pattern')
        x = Fraction(t)
        return ((d.min_incl is None or x >= Fraction(d.min_incl)) and (d.max_incl is None or x <= Fraction(d.max_incl))
                and (d.min_excl is None or x > Fraction(d.min_excl)) and (d.max_excl is None or x < Fraction(d.max_excl)))
    s = z3.Solver()
    s.add(lex_str(d, z3.StringVal(t)))
    r = s.check()
    if r == z3.unknown:
        raise RuntimeError('lex_const unknown')
    return r == z3.sat
