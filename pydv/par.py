"""run_tasks: run func(task) for every task in its own forked process, at most nproc at a time, each under a HARD wall-clock limit
(SIGKILL): a task stuck inside a C call (z3.simplify, a solver ignoring its soft timeout) cannot hold a check hostage."""
import multiprocessing as mp
import os
import time


def _child(func, task, conn):
    try:
        conn.send(('ok', func(task)))
    except BaseException as ex:
        import traceback
        conn.send(('err', traceback.format_exc()[-1500:]))
    finally:
        conn.close()


def run_tasks(func, tasks, nproc=None, hard_timeout=600, on_timeout=None):
    ctx = mp.get_context('fork')
    nproc = nproc or min(16, os.cpu_count() or 4)
    pending = list(tasks)
    running = []      # (proc, conn, task, t0)
    results = []
    while pending or running:
        while pending and len(running) < nproc:
            t = pending.pop(0)
            a, b = ctx.Pipe(duplex=False)
            p = ctx.Process(target=_child, args=(func, t, b))
            p.start()
            b.close()
            running.append((p, a, t, time.time()))
        still = []
        for p, conn, t, t0 in running:
            if conn.poll(0.02):
                try:
                    kind, val = conn.recv()
                except EOFError:
                    kind, val = 'err', 'worker died without a result'
                p.join(5)
                results.append((t, kind, val))
            elif not p.is_alive():
                results.append((t, 'err', 'worker died without a result'))
            elif time.time() - t0 > hard_timeout:
                p.kill()
                p.join(5)
                results.append((t, 'timeout', on_timeout(t) if on_timeout else None))
            else:
                still.append((p, conn, t, t0))
        running = still
        if running:
            time.sleep(0.05)
    return results


def _do_chunk(arg):
    func, group = arg
    return [func(t) for t in group]


def run_chunked(func, tasks, chunk=1, hard_timeout=600, nproc=None):
    """yields (task, kind, value) with kind in {'ok', 'timeout', 'err'}; `chunk` tasks share one forked process (fresh per chunk)"""
    groups = [tasks[i:i + chunk] for i in range(0, len(tasks), chunk)]
    for (f, group), kind, val in run_tasks(_do_chunk, [(func, g) for g in groups], nproc=nproc, hard_timeout=hard_timeout):
        if kind == 'ok':
            for t, v in zip(group, val):
                yield t, 'ok', v
        else:
            for t in group:
                yield t, kind, val


def collect(func, tasks, chunk, hard_timeout, fail_ob, flatten=True):
    """common driver of the per-class checks: list of obligation dicts; a chunk that hangs or dies yields `fail_ob(task, why)` entries"""
    out = []
    for t, kind, val in run_chunked(func, tasks, chunk=chunk, hard_timeout=hard_timeout):
        if kind == 'ok':
            out.extend(val) if flatten else out.append(val)
        else:
            out.append(fail_ob(t, f'worker {kind}: {str(val)[:300]}'))
    return out
