"""run_tasks: run func(task) for every task in its own forked process, at most nproc at a time, each under a HARD wall-clock limit
(SIGKILL): a task stuck inside a C call (z3.simplify, a solver ignoring its soft timeout) cannot hold a check hostage."""
import multiprocessing as mp
import os
import time


def _child(func, task, conn):
    try:
        conn.send(('ok', func(task)))
    except BaseException as ex:
        import traceback
        conn.send(('err', traceback.format_exc()[-1500:]))
    finally:
        conn.close()


def run_tasks(func, tasks, nproc=None, hard_timeout=600, on_timeout=None):
    ctx = mp.get_context('fork')
    nproc = nproc or min(16, os.cpu_count() or 4)
    pending = list(tasks)
    running = []      # (proc, conn, task, t0)
    results = []
    while pending or running:
        while pending and len(running) < nproc:
            t = pending.pop(0)
            a, b = ctx.Pipe(duplex=False)
            p = ctx.Process(target=_child, args=(func, t, b))
            p.start()
            b.close()
            running.append((p, a, t, time.time()))
        still = []
        for p, conn, t, t0 in running:
            if conn.poll(0.02):
                try:
                    kind, val = conn.recv()
                except EOFError:
                    kind, val = 'err', 'worker died without a result'
                p.join(5)
                results.append((t, kind, val))
            elif not p.is_alive():
                results.append((t, 'err', 'worker died without a result'))
            elif time.time() - t0 > hard_timeout:
                p.kill()
                p.join(5)
                results.append((t, 'timeout', on_timeout(t) if on_timeout else None))
            else:
                still.append((p, conn, t, t0))
        running = still
        if running:
            time.sleep(0.05)
    return results
