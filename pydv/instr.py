"""Mechanical instrumentation of the modules under contract, applied at import from /repo's *current* source.

What the rewrite changes (and nothing else) -- see DESIGN.md 2.1:
  tests of if/elif/while/assert/ifexp/comprehension-if  -> _dv_.truth(test)
  not x / a and b / a or b                              -> _dv_.not_(x) / _dv_.and_(lambda: a, ...) / _dv_.or_(...)
  a is b, is not, in, not in, ==, !=  (single comparator) -> _dv_.is_/isnot_/in_/notin_/eq_/ne_(a, b)
  len/isinstance/type/hasattr/bool/str/int/float(...)   -> _dv_.len_/isinstance_/type_/hasattr_/bool_/str_/int_/float_(...)
  print/open/eval(...) and ET.<f>(...), re.compile(...), copy.copy/deepcopy(...), math.<f>(...) -> _dv_.ext('<name>', <callee>, ...)
  `if T: NAME = <bool constant>` (no else)              -> NAME = _dv_.ite(T, <const>, NAME)      [if-conversion]
A de-instrumenter inverts the rewrite; `roundtrip_ok` compares ast.dump with the original on every load.
"""
import ast
import importlib.abc
import importlib.machinery
import sys

from . import engine

HOOK = '_dv_'
BUILTIN_HOOKS = {'len': 'len_', 'isinstance': 'isinstance_', 'type': 'type_', 'hasattr': 'hasattr_', 'bool': 'bool_',
                 'str': 'str_', 'int': 'int_', 'float': 'float_'}
EXT_NAMES = {'print', 'open', 'eval'}
EXT_ATTRS = {('ET', None), ('re', 'compile'), ('copy', 'copy'), ('copy', 'deepcopy'), ('math', None)}
CMP = {ast.Is: 'is_', ast.IsNot: 'isnot_', ast.In: 'in_', ast.NotIn: 'notin_', ast.Eq: 'eq_', ast.NotEq: 'ne_'}
CMP_INV = {v: k for k, v in CMP.items()}


def _h(name, *args):
    return ast.Call(func=ast.Attribute(value=ast.Name(id=HOOK, ctx=ast.Load()), attr=name, ctx=ast.Load()),
                    args=list(args), keywords=[])


def _lam(body):
    return ast.Lambda(args=ast.arguments(posonlyargs=[], args=[], kwonlyargs=[], kw_defaults=[], defaults=[]), body=body)


class Instr(ast.NodeTransformer):
    def __init__(self):
        self.counts = {}
        self.shadowed = set()
        self.bool_inited = set()

    def visit_FunctionDef(self, n):
        saved = self.bool_inited
        self.bool_inited = set()
        new_body = []
        for st in n.body:
            new_body.append(self.visit(st))
            if (isinstance(st, ast.Assign) and len(st.targets) == 1 and isinstance(st.targets[0], ast.Name)
                    and isinstance(st.value, ast.Constant) and isinstance(st.value.value, bool)):
                self.bool_inited.add(st.targets[0].id)
        n.body = new_body
        n.decorator_list = [self.visit(d) for d in n.decorator_list]
        n.args = self.visit(n.args)
        self.bool_inited = saved
        return n

    def _n(self, k):
        self.counts[k] = self.counts.get(k, 0) + 1

    def _t(self, t):
        self._n('truth')
        return _h('truth', t)

    def visit_If(self, n):
        # if-conversion of the accumulate idiom
        if (not n.orelse and len(n.body) == 1 and isinstance(n.body[0], ast.Assign) and len(n.body[0].targets) == 1
                and isinstance(n.body[0].targets[0], ast.Name) and isinstance(n.body[0].value, ast.Constant)
                and isinstance(n.body[0].value.value, bool) and n.body[0].targets[0].id in self.bool_inited):
            self.generic_visit(n)
            nm = n.body[0].targets[0].id
            self._n('ite')
            return ast.copy_location(ast.Assign(
                targets=[ast.Name(id=nm, ctx=ast.Store())],
                value=_h('ite', n.test, n.body[0].value, ast.Name(id=nm, ctx=ast.Load()))), n)
        self.generic_visit(n)
        n.test = self._t(n.test)
        return n

    def visit_While(self, n):
        self.generic_visit(n); n.test = self._t(n.test); return n

    def visit_IfExp(self, n):
        self.generic_visit(n); n.test = self._t(n.test); return n

    def visit_Assert(self, n):
        self.generic_visit(n); n.test = self._t(n.test); return n

    def visit_comprehension(self, n):
        self.generic_visit(n); n.ifs = [self._t(i) for i in n.ifs]; return n

    def visit_UnaryOp(self, n):
        self.generic_visit(n)
        if isinstance(n.op, ast.Not):
            self._n('not')
            return _h('not_', n.operand)
        return n

    def visit_BoolOp(self, n):
        self.generic_visit(n)
        self._n('boolop')
        return _h('and_' if isinstance(n.op, ast.And) else 'or_', *[_lam(v) for v in n.values])

    def visit_Compare(self, n):
        self.generic_visit(n)
        if len(n.ops) != 1:
            self._n('chained-compare-left-native')
            return n
        op = n.ops[0]
        if type(op) in CMP:
            self._n('compare')
            return _h(CMP[type(op)], n.left, n.comparators[0])
        return n

    def visit_Call(self, n):
        self.generic_visit(n)
        f = n.func
        if isinstance(f, ast.Name):
            if f.id in BUILTIN_HOOKS and f.id not in self.shadowed:
                self._n('builtin')
                return ast.Call(func=ast.Attribute(value=ast.Name(id=HOOK, ctx=ast.Load()), attr=BUILTIN_HOOKS[f.id],
                                                   ctx=ast.Load()), args=n.args, keywords=n.keywords)
            if f.id in EXT_NAMES and f.id not in self.shadowed:
                self._n('ext')
                if f.id == 'eval' and len(n.args) == 1 and not n.keywords:
                    # eval() uses the caller's namespaces implicitly: make them explicit (same objects)
                    n.args = n.args + [ast.Call(func=ast.Name(id='globals', ctx=ast.Load()), args=[], keywords=[]),
                                       ast.Call(func=ast.Name(id='locals', ctx=ast.Load()), args=[], keywords=[])]
                    n.keywords = [ast.keyword(arg='_dv_ns', value=ast.Constant(True))]
                return ast.Call(func=ast.Attribute(value=ast.Name(id=HOOK, ctx=ast.Load()), attr='ext', ctx=ast.Load()),
                                args=[ast.Constant(f.id), f] + n.args, keywords=n.keywords)
        if isinstance(f, ast.Attribute) and isinstance(f.value, ast.Name):
            if (f.value.id, f.attr) in EXT_ATTRS or (f.value.id, None) in EXT_ATTRS:
                self._n('ext')
                return ast.Call(func=ast.Attribute(value=ast.Name(id=HOOK, ctx=ast.Load()), attr='ext', ctx=ast.Load()),
                                args=[ast.Constant(f'{f.value.id}.{f.attr}'), f] + n.args, keywords=n.keywords)
        return n


class DeInstr(ast.NodeTransformer):
    """inverse of Instr (used only by the round-trip self check)"""

    @staticmethod
    def _hook(n):
        if (isinstance(n, ast.Call) and isinstance(n.func, ast.Attribute) and isinstance(n.func.value, ast.Name)
                and n.func.value.id == HOOK):
            return n.func.attr
        return None

    def visit(self, node):
        # handle ite before children are rewritten (needs the Assign node)
        if isinstance(node, ast.Assign) and self._hook(node.value) == 'ite':
            test, const, _ = node.value.args
            new = ast.If(test=self.visit(test), body=[ast.Assign(targets=node.targets, value=const)], orelse=[])
            return ast.copy_location(new, node)
        return super().visit(node)

    def visit_Call(self, n):
        self.generic_visit(n)
        h = self._hook(n)
        if h is None:
            return n
        if h == 'truth':
            return n.args[0]
        if h == 'not_':
            return ast.UnaryOp(op=ast.Not(), operand=n.args[0])
        if h in ('and_', 'or_'):
            return ast.BoolOp(op=ast.And() if h == 'and_' else ast.Or(), values=[a.body for a in n.args])
        if h in CMP_INV:
            return ast.Compare(left=n.args[0], ops=[CMP_INV[h]()], comparators=[n.args[1]])
        inv = {v: k for k, v in BUILTIN_HOOKS.items()}
        if h in inv:
            return ast.Call(func=ast.Name(id=inv[h], ctx=ast.Load()), args=n.args, keywords=n.keywords)
        if h == 'ext':
            if any(k.arg == '_dv_ns' for k in n.keywords):
                return ast.Call(func=n.args[1], args=n.args[2:-2], keywords=[k for k in n.keywords if k.arg != '_dv_ns'])
            return ast.Call(func=n.args[1], args=n.args[2:], keywords=n.keywords)
        raise ValueError(h)


def _norm(tree):
    return ast.dump(tree, annotate_fields=True, include_attributes=False)


def instrument_source(src, path):
    orig = ast.parse(src, path)
    tr = Instr()
    # builtin names re-bound at module level or as parameters are not hooked
    for node in ast.walk(orig):
        if isinstance(node, (ast.FunctionDef, ast.ClassDef)) and node.name in BUILTIN_HOOKS:
            tr.shadowed.add(node.name)
        if isinstance(node, ast.arg) and (node.arg in BUILTIN_HOOKS or node.arg in EXT_NAMES):
            tr.shadowed.add(node.arg)
        if isinstance(node, ast.Name) and isinstance(node.ctx, ast.Store) and (node.id in BUILTIN_HOOKS or node.id in EXT_NAMES):
            tr.shadowed.add(node.id)
    new = tr.visit(ast.parse(src, path))
    ast.fix_missing_locations(new)
    back = DeInstr().visit(ast.parse(ast.unparse(new)))
    ok = _norm(back) == _norm(ast.parse(ast.unparse(orig)))
    return new, tr.counts, ok


LOADED = {}   # module name -> dict(path, counts, roundtrip_ok)


class _Loader(importlib.abc.Loader):
    def __init__(self, path):
        self.path = path

    def create_module(self, spec):
        return None

    def exec_module(self, mod):
        with open(self.path, encoding='utf-8') as f:
            src = f.read()
        tree, counts, ok = instrument_source(src, self.path)
        LOADED[mod.__name__] = {'path': self.path, 'counts': counts, 'roundtrip_ok': ok}
        mod.__dict__[HOOK] = engine
        mod.__file__ = self.path
        exec(compile(tree, self.path, 'exec'), mod.__dict__)


class Finder(importlib.abc.MetaPathFinder):
    def __init__(self, targets):
        self.targets = targets

    def find_spec(self, name, path, target=None):
        if name in self.targets:
            return importlib.machinery.ModuleSpec(name, _Loader(self.targets[name]), origin=self.targets[name])


import os as _os
REPO = _os.environ.get('VERIF_REPO', '/repo')
DEFAULT_MODULES = ['util.core', 'xsd.xsdtree', 'xsd.xsdsimpletype', 'xsd.xsdattribute', 'xsd.xsdindicator', 'xsd.xsdelement',
                   'xsd.xsdcomplextype', 'xmlelement.xmlchildcontainer', 'xmlelement.xmlelement', 'xmlelement.containers',
                   'parser.parser', 'generate_classes.utils']


def install(repo=REPO, modules=None, tree=True):
    import os
    targets = {}
    for m in (modules or DEFAULT_MODULES):
        targets['musicxml.' + m] = os.path.join(repo, 'musicxml', m.replace('.', '/') + '.py')
    if tree:
        import importlib.util
        spec = importlib.util.find_spec('verysimpletree')
        targets['verysimpletree.tree'] = os.path.join(os.path.dirname(spec.origin), 'tree.py')
    for name in targets:
        if name in sys.modules:
            raise RuntimeError(f'{name} imported before instrumentation')
    sys.meta_path.insert(0, Finder(targets))
    return targets


def roundtrip_report():
    bad = [m for m, d in LOADED.items() if not d['roundtrip_ok']]
    return bad
