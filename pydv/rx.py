"""Two independent regular-expression readers, both producing z3 regular expressions over z3's character domain
(U+0000..U+2FFFF; code points above are outside the solver's alphabet -- stated as an assumption).

  xsd_regex(p)    -- XML Schema Part 2 Appendix F regular expressions (the *schema's* patterns; reference side)
  py_regex(p)     -- Python `re` patterns as the library compiles them (parsed by CPython's own re._parser, so the
                     structure is the one the running code uses; fullmatch semantics)
They share nothing but the character-set helper.
"""
import re._parser as sre_parse
import re._constants as sre_c
import z3

MAXCH = 0x2FFFF
S = z3.StringSort()


def _chr(c):
    return z3.StringVal(chr(c))


def charset_re(ranges):
    """ranges: list of (lo, hi) code points, inclusive -> z3 regex matching one char from the set"""
    parts = []
    for lo, hi in _norm(ranges):
        if lo > MAXCH:
            continue
        hi = min(hi, MAXCH)
        parts.append(z3.Range(chr(lo), chr(hi)) if lo != hi else z3.Re(_chr(lo)))
    if not parts:
        return z3.Empty(z3.ReSort(S))
    return parts[0] if len(parts) == 1 else z3.Union(*parts)


def _norm(ranges):
    rs = sorted((lo, hi) for lo, hi in ranges if lo <= hi)
    out = []
    for lo, hi in rs:
        if out and lo <= out[-1][1] + 1:
            out[-1] = (out[-1][0], max(out[-1][1], hi))
        else:
            out.append((lo, hi))
    return out


def _neg(ranges, top=0x10FFFF):
    out = []
    prev = 0
    for lo, hi in _norm(ranges):
        if lo > prev:
            out.append((prev, lo - 1))
        prev = hi + 1
    if prev <= top:
        out.append((prev, top))
    return out


def _sub(a, b):
    """a minus b"""
    nb = _neg(b)
    out = []
    for lo, hi in _norm(a):
        for l2, h2 in nb:
            l, h = max(lo, l2), min(hi, h2)
            if l <= h:
                out.append((l, h))
    return _norm(out)


# XML 1.0 (5th ed.) NameStartChar / NameChar -- what XSD's \i and \c denote (XSD 1.0 2nd ed. refers to XML 1.0 Name chars;
# the 5th-edition ranges are the ones the MusicXML schema's processors use and the ones the library copies)
NAME_START = [(0x3A, 0x3A), (0x41, 0x5A), (0x5F, 0x5F), (0x61, 0x7A), (0xC0, 0xD6), (0xD8, 0xF6), (0xF8, 0x2FF), (0x370, 0x37D),
              (0x37F, 0x1FFF), (0x200C, 0x200D), (0x2070, 0x218F), (0x2C00, 0x2FEF), (0x3001, 0xD7FF), (0xF900, 0xFDCF),
              (0xFDF0, 0xFFFD), (0x10000, 0xEFFFF)]
NAME_CHAR = NAME_START + [(0x2D, 0x2E), (0x30, 0x39), (0xB7, 0xB7), (0x300, 0x36F), (0x203F, 0x2040)]
DIGIT = [(0x30, 0x39)]   # \d in XSD is Unicode Nd; restricted to ASCII digits plus the other Nd blocks below
import unicodedata as _ud


def _category_ranges(pred):
    out = []
    start = None
    for c in range(0, MAXCH + 1):
        ok = pred(chr(c))
        if ok and start is None:
            start = c
        if not ok and start is not None:
            out.append((start, c - 1)); start = None
    if start is not None:
        out.append((start, MAXCH))
    return out


_ND = None


def unicode_digits():
    global _ND
    if _ND is None:
        _ND = _category_ranges(lambda ch: _ud.category(ch) == 'Nd')
    return _ND


XSD_SPACE = [(0x20, 0x20), (0x9, 0xA), (0xD, 0xD)]


# ---------------------------------------------------------------------------------------------------------------------
# XSD regex reader (recursive descent)

class _P:
    def __init__(self, s):
        self.s = s
        self.i = 0

    def peek(self):
        return self.s[self.i] if self.i < len(self.s) else None

    def eat(self, c=None):
        ch = self.peek()
        if ch is None or (c is not None and ch != c):
            raise ValueError(f'xsd regex: expected {c!r} at {self.i} in {self.s!r}')
        self.i += 1
        return ch


def xsd_regex(p):
    ps = _P(p)
    r = _x_regexp(ps)
    if ps.peek() is not None:
        raise ValueError(f'xsd regex: trailing input at {ps.i} in {p!r}')
    return r


def _x_regexp(ps):
    branches = [_x_branch(ps)]
    while ps.peek() == '|':
        ps.eat('|')
        branches.append(_x_branch(ps))
    return branches[0] if len(branches) == 1 else z3.Union(*branches)


def _x_branch(ps):
    pieces = []
    while ps.peek() is not None and ps.peek() not in '|)':
        pieces.append(_x_piece(ps))
    if not pieces:
        return z3.Re(z3.StringVal(''))
    return pieces[0] if len(pieces) == 1 else z3.Concat(*pieces)


def _x_piece(ps):
    a = _x_atom(ps)
    c = ps.peek()
    if c == '*':
        ps.eat(); return z3.Star(a)
    if c == '+':
        ps.eat(); return z3.Plus(a)
    if c == '?':
        ps.eat(); return z3.Option(a)
    if c == '{':
        ps.eat()
        num = ''
        while ps.peek().isdigit(): num += ps.eat()
        lo = int(num)
        hi = lo
        if ps.peek() == ',':
            ps.eat()
            num = ''
            while ps.peek().isdigit(): num += ps.eat()
            hi = int(num) if num else None
        ps.eat('}')
        if hi is None:
            return z3.Concat(*([a] * lo + [z3.Star(a)])) if lo else z3.Star(a)
        return z3.Loop(a, lo, hi)
    return a


def _x_escape(ps):
    """after the backslash: returns list of ranges"""
    c = ps.eat()
    if c == 'c': return NAME_CHAR
    if c == 'i': return NAME_START
    if c == 'C': return _neg(NAME_CHAR)
    if c == 'I': return _neg(NAME_START)
    if c == 'd': return unicode_digits()
    if c == 'D': return _neg(unicode_digits())
    if c == 's': return XSD_SPACE
    if c == 'S': return _neg(XSD_SPACE)
    if c == 'n': return [(0xA, 0xA)]
    if c == 'r': return [(0xD, 0xD)]
    if c == 't': return [(0x9, 0x9)]
    if c in '\\|.?*+(){}-[]^':
        return [(ord(c), ord(c))]
    raise ValueError(f'xsd regex: unsupported escape \\{c}')


def _x_atom(ps):
    c = ps.peek()
    if c == '(':
        ps.eat()
        r = _x_regexp(ps)
        ps.eat(')')
        return r
    if c == '[':
        return charset_re(_x_class(ps))
    if c == '\\':
        ps.eat()
        return charset_re(_x_escape(ps))
    if c == '.':
        ps.eat()
        return charset_re(_neg([(0xA, 0xA), (0xD, 0xD)]))
    if c in '?*+{}|)]':
        raise ValueError(f'xsd regex: unexpected {c!r}')
    ps.eat()
    return z3.Re(z3.StringVal(c))


def _x_class(ps):
    ps.eat('[')
    negate = False
    if ps.peek() == '^':
        ps.eat(); negate = True
    ranges = []
    sub = None
    first = True
    while True:
        c = ps.peek()
        if c is None:
            raise ValueError('xsd regex: unterminated class')
        if c == ']' and not first:
            ps.eat(); break
        first = False
        if c == '-' and ps.s[ps.i + 1:ps.i + 2] == '[':
            ps.eat('-')
            sub = _x_class(ps)
            ps.eat(']')
            break
        if c == '\\':
            ps.eat()
            lo_r = _x_escape(ps)
            if len(lo_r) == 1 and lo_r[0][0] == lo_r[0][1] and ps.peek() == '-' and ps.s[ps.i + 1:ps.i + 2] not in ('[', ']'):
                ps.eat('-')
                hi = _x_class_char(ps)
                ranges.append((lo_r[0][0], hi))
            else:
                ranges.extend(lo_r)
            continue
        lo = ord(ps.eat())
        if ps.peek() == '-' and ps.s[ps.i + 1:ps.i + 2] not in ('[', ']', ''):
            ps.eat('-')
            hi = _x_class_char(ps)
            ranges.append((lo, hi))
        else:
            ranges.append((lo, lo))
    if negate:
        ranges = _neg(ranges)
    if sub is not None:
        ranges = _sub(ranges, sub)
    return ranges


def _x_class_char(ps):
    c = ps.eat()
    if c == '\\':
        r = _x_escape(ps)
        if len(r) == 1 and r[0][0] == r[0][1]:
            return r[0][0]
        raise ValueError('xsd regex: class escape as range end')
    return ord(c)


# ---------------------------------------------------------------------------------------------------------------------
# Python re reader (structure from CPython's parser)

def _py_category(cat):
    if cat == sre_c.CATEGORY_DIGIT: return _category_ranges_cached('d')
    if cat == sre_c.CATEGORY_NOT_DIGIT: return _neg(_category_ranges_cached('d'))
    if cat == sre_c.CATEGORY_SPACE: return _category_ranges_cached('s')
    if cat == sre_c.CATEGORY_NOT_SPACE: return _neg(_category_ranges_cached('s'))
    if cat == sre_c.CATEGORY_WORD: return _category_ranges_cached('w')
    if cat == sre_c.CATEGORY_NOT_WORD: return _neg(_category_ranges_cached('w'))
    raise ValueError(f'py regex: category {cat}')


_CAT = {}


def _category_ranges_cached(k):
    if k not in _CAT:
        import re
        rx = re.compile({'d': r'\d', 's': r'\s', 'w': r'\w'}[k])
        _CAT[k] = _category_ranges(lambda ch: rx.fullmatch(ch) is not None)
    return _CAT[k]


def py_regex(p, flags=0):
    """z3 regex r with: re.compile(p).fullmatch(s) is not None  <=>  s in r   (for the constructs supported; others raise)"""
    if flags:
        raise ValueError('py regex: flags unsupported')
    tree = sre_parse.parse(p)
    if tree.state.flags & ~sre_c.SRE_FLAG_UNICODE:
        raise ValueError('py regex: inline flags unsupported')
    return _py_seq(list(tree), top=True)


def _py_seq(items, top=False):
    parts = []
    n = len(items)
    for idx, (op, av) in enumerate(items):
        if op == sre_c.AT:
            # anchors: only ^ at the very beginning and $ at the very end of the top-level sequence are no-ops under fullmatch
            if top and av in (sre_c.AT_BEGINNING, sre_c.AT_BEGINNING_STRING) and idx == 0:
                continue
            if top and av == sre_c.AT_END_STRING and idx == n - 1:
                continue
            if top and av == sre_c.AT_END and idx == n - 1:
                # '$' also matches before a trailing newline: under fullmatch 'X$' == X | X\n is NOT so (fullmatch must
                # consume everything and $ consumes nothing) -> plain no-op
                continue
            raise ValueError('py regex: anchor in unsupported position')
        parts.append(_py_item(op, av))
    if not parts:
        return z3.Re(z3.StringVal(''))
    return parts[0] if len(parts) == 1 else z3.Concat(*parts)


def _py_item(op, av):
    if op == sre_c.LITERAL:
        return charset_re([(av, av)])
    if op == sre_c.NOT_LITERAL:
        return charset_re(_neg([(av, av)]))
    if op == sre_c.ANY:
        return charset_re(_neg([(0xA, 0xA)]))
    if op == sre_c.IN:
        negate = False
        ranges = []
        for o, a in av:
            if o == sre_c.NEGATE: negate = True
            elif o == sre_c.LITERAL: ranges.append((a, a))
            elif o == sre_c.RANGE: ranges.append(a)
            elif o == sre_c.CATEGORY: ranges.extend(_py_category(a))
            else: raise ValueError(f'py regex: class item {o}')
        return charset_re(_neg(ranges) if negate else ranges)
    if op == sre_c.BRANCH:
        alts = [_py_seq(list(x)) for x in av[1]]
        return alts[0] if len(alts) == 1 else z3.Union(*alts)
    if op == sre_c.SUBPATTERN:
        group, add_flags, del_flags, sub = av
        if add_flags or del_flags:
            raise ValueError('py regex: scoped flags')
        return _py_seq(list(sub))
    if op in (sre_c.MAX_REPEAT, sre_c.MIN_REPEAT):
        lo, hi, sub = av
        body = _py_seq(list(sub))
        if hi == sre_c.MAXREPEAT:
            if lo == 0: return z3.Star(body)
            if lo == 1: return z3.Plus(body)
            return z3.Concat(*([body] * lo + [z3.Star(body)]))
        if (lo, hi) == (0, 1): return z3.Option(body)
        return z3.Loop(body, lo, hi)
    raise ValueError(f'py regex: unsupported construct {op}')


# ---------------------------------------------------------------------------------------------------------------------
# built-in lexical classes (XSD Part 2), written by hand

def builtin_re(name):
    nc = charset_re(NAME_CHAR)
    ns = charset_re(NAME_START)
    if name == 'NMTOKEN':
        return z3.Plus(nc)
    if name == 'Name':
        return z3.Concat(ns, z3.Star(nc))
    if name == 'NCName':
        colon = [(0x3A, 0x3A)]
        return z3.Concat(charset_re(_sub(NAME_START, colon)), z3.Star(charset_re(_sub(NAME_CHAR, colon))))
    if name == 'language':
        return xsd_regex('[a-zA-Z]{1,8}(-[a-zA-Z0-9]{1,8})*')
    raise KeyError(name)


def date_re():
    """xs:date lexical space (XSD 1.0): '-'? yyyy '-' mm '-' dd zzzzzz?   (day-of-month/leap-year validity is a value-space
    constraint checked separately by date_value_ok)"""
    return xsd_regex(r'-?([1-9][0-9]{3,}|0[0-9]{3})-(0[1-9]|1[0-2])-(0[1-9]|[12][0-9]|3[01])(Z|(\+|-)((0[0-9]|1[0-3]):[0-5][0-9]|14:00))?')


def decimal_re():
    return xsd_regex(r'(\+|-)?([0-9]+(\.[0-9]*)?|\.[0-9]+)')


def integer_re():
    return xsd_regex(r'(\+|-)?[0-9]+')
