"""Evaluation of the history contracts (bounded tier) for all matcher-facing properties in one sweep; results are cached
per (source hash of /repo, tier) so that the seven property checks share one enumeration."""
import hashlib
import glob
import itertools
import json
import multiprocessing as mp
import os
import sys
import time

from . import xsdspec, hist

HERE = os.path.dirname(os.path.abspath(__file__))
VERIF = os.path.dirname(HERE)
PROPS = ('C01', 'C02', 'C06', 'C07', 'C10', 'C11', 'C12', 'C16', 'C18', 'C19')


def repo_hash(repo=None):
    """hash of the tree under test only (library sources, schema copies, verysimpletree)"""
    repo = repo or os.environ.get('VERIF_REPO', '/repo')
    h = hashlib.sha256()
    files = sorted(glob.glob(os.path.join(repo, 'musicxml', '**', '*.py'), recursive=True)) + sorted(glob.glob(os.path.join(repo, 'musicxml', '**', '*.xsd'), recursive=True))
    for f in files:
        if '/tests/' in f:
            continue
        h.update(f.encode()); h.update(open(f, 'rb').read())
    import verysimpletree.tree as T
    h.update(open(T.__file__, 'rb').read())
    return h.hexdigest()[:16]


def source_hash(repo=None):
    repo = repo or os.environ.get('VERIF_REPO', '/repo')
    h = hashlib.sha256()
    files = sorted(glob.glob(os.path.join(repo, 'musicxml', '**', '*.py'), recursive=True)) + sorted(glob.glob(os.path.join(repo, 'musicxml', '**', '*.xsd'), recursive=True))
    for f in files:
        if '/tests/' in f:
            continue
        h.update(f.encode()); h.update(open(f, 'rb').read())
    for f in sorted(glob.glob(os.path.join(HERE, '*.py'))):
        if os.path.basename(f) in ('hist.py', 'xsdspec.py', 'elem.py'):
            h.update(open(f, 'rb').read())
    import inspect
    for fn in (eval_type, bounds, unique_arrangement, hstr, type_elements, inorder_words):      # the semantic part of this module (not the scheduling)
        h.update(inspect.getsource(fn).encode())
    import verysimpletree.tree as T
    h.update(open(T.__file__, 'rb').read())
    return h.hexdigest()[:16]


def type_elements():
    """type key with element content -> representative element name"""
    out = {}
    for name, ts in sorted(xsdspec.element_types().items()):
        (t,) = ts
        if t in xsdspec.MODELS and t not in out:
            out[t] = name
    return out


def bounds(tier, alpha):
    """(k_add, k_after): all add-sequences up to k_add; after a removal up to k_after further adds"""
    n = len(alpha)
    if tier == 'quick':
        if n >= 20:
            return 1, 0, 2          # very large alphabets: removal/replacement variants after one add, all add-sequences up to 2
        return (3 if n <= 5 else 2), (1 if n <= 8 else 0), (3 if n <= 8 else 0)
    return (4 if n <= 5 else 3 if n <= 10 else 2), (1 if n <= 14 else 0), (4 if n <= 6 else 3 if n <= 12 else 0)


def inorder_words(model, alpha, max_len, cap, skip_upto):
    """C02's own quantifier, bounded: every viable in-order prefix of the content model (breadth first by length, then lexicographic),
    lengths skip_upto+1 .. max_len, at most `cap` of them"""
    out = []
    level = [((), model)]
    for n in range(1, max_len + 1):
        nxt = []
        for w, r in level:
            for a in alpha:
                d = xsdspec.deriv(r, a)
                if d != xsdspec.EMPTY and xsdspec.nonempty(d):
                    nxt.append((w + (a,), d))
        level = nxt
        if n > skip_upto:
            for w, r in level:
                out.append(tuple(('add', a) for a in w))
                if len(out) >= cap:
                    return out
        if len(level) > 4 * cap:
            level = level[:4 * cap]
    return out


def hstr(h):
    return ' '.join('+' + op[1] if op[0] == 'add' else f'+{op[1]}@{op[2]}' if op[0] == 'addf' else f'-#{op[1]}' if op[0] == 'rm'
                    else f'#{op[1]}:={op[2]}' if op[0] == 'rep' else f'-k{op[1]}' if op[0] == 'rmk' else f'#{op[1]}:=fn' if op[0] == 'repc' else f'#{op[1]}:=self' if op[0] == 'selfrep' else f'.{op[1]}' if op[0] == 'set' else f'.{op[1]}=None' if op[0] == 'unset'
                    else f'str({op[1]})' for op in h)


def unique_arrangement(tkey, names):
    """the only valid word over this multiset, or None"""
    if len(names) > 5:
        return None
    seen = set()
    valid = []
    for p in itertools.permutations(names):
        if p in seen:
            continue
        seen.add(p)
        if hist.in_language(tkey, p):
            valid.append(p)
            if len(valid) > 1:
                return None
    return valid[0] if valid else None


def eval_type(args):
    tkey, name, tier, shard, nshards = args
    lib = hist.Lib()
    model = xsdspec.MODELS[tkey]
    alpha = xsdspec.alphabet(model)
    k_add, k_after, k_add_only = bounds(tier, alpha)
    # names occurring in several leaves (forward makes sense)
    leaves = []

    def walk(r):
        if r[0] == 'sym': leaves.append(r[1])
        elif r[0] == 'rep': walk(r[1])
        else:
            for x in r[1]: walk(x)
    walk(model)
    dups = sorted({a for a in leaves if leaves.count(a) > 1})
    fails = []       # (prop, history string, detail)
    n_hist = 0
    counts = {p: 0 for p in PROPS}
    t0 = time.time()

    def fail(prop, h, detail):
        fails.append((prop, hstr(h), detail))

    obs_cache = {}

    def observe(h, check=True):
        key = (h, check)
        if key not in obs_cache:
            if len(obs_cache) > 20000:
                obs_cache.clear()
            obs_cache[key] = hist.observe(lib, name, h, alpha, check)
        return obs_cache[key]

    lw, cap = (5, 1200) if tier == 'quick' else (7, 20000)
    extra_words = inorder_words(model, alpha, lw, cap, max(k_add, k_add_only))
    import itertools as _it
    extra_set = set(extra_words)
    for idx, h in enumerate(_it.chain(hist.histories(alpha, k_add, dup_names=dups, k_after=k_after, k_add_only=k_add_only), extra_words)):
        if idx % nshards != shard:
            continue
        n_hist += 1
        e, outs, kids, out = hist.run(lib, name, h)
        if 'n/a' in outs:
            continue
        if any(o != 'ok' for o in outs[:-1]):
            # histories are extended only through successful steps, plus ONE failed attempt in the middle is covered by C10
            pass
        last = h[-1] if h else None
        lo = outs[-1] if outs else 'ok'
        ordered, insertion = hist.views(e)
        # ---- C19
        counts['C19'] += 1
        if out:
            fail('C19', h, f'writes to stdout/stderr: {out[:60]!r}')
        if lo.startswith('exc:'):
            exn = lo[4:]
            if exn not in {c.__name__ for c in lib.documented}:
                fail('C19', h, f'undocumented exception {exn}')
        # ---- C06
        counts['C06'] += 1
        model_present = hist.present_model(h, outs)
        if sorted(ordered) != sorted(insertion) or sorted(insertion) != sorted(model_present):
            fail('C06', h, f'ordered {ordered} / insertion {insertion} / expected {sorted(model_present)}')
        else:
            ins = e.get_children(ordered=False)
            want_ids = hist.present_ids(h, outs)
            want = [kids[i] for i in want_ids if i < len(kids)]
            if sorted(map(id, ins)) != sorted(map(id, want)) or sorted(map(id, e.get_children(ordered=True))) != sorted(map(id, want)):
                fail('C06', h, f'the views do not hold exactly the children added minus removed (by identity): ordered {ordered} / insertion {insertion}')
            elif any(c.get_parent() is not e for c in ins):
                fail('C06', h, 'a child does not report the element as parent')
            elif any(k.get_parent() is not None for k in kids if not any(k is c for c in ins)):
                fail('C06', h, 'a removed / replaced / rejected child still reports a parent')
        if not h:
            continue
        prev = h[:-1]
        # ---- C10: a failed op changes nothing observable
        if lo.startswith('exc:') and last[0] != 'str':
            counts['C10'] += 1
            a, b = observe(h), observe(prev)
            for key in ('ordered', 'insertion', 'verdict', 'accepts'):
                if a[key] != b[key]:
                    fail('C10', h, f'{key} differs after the failed op: {b[key]} -> {a[key]}')
                    break
        # ---- serialisation-based clauses
        if all(o == 'ok' for o in outs):
            for ic in (False, True):
                e2, _, _, _ = hist.run(lib, name, h)
                v = hist.verdict(e2, ic)
                if v[0] == 'ok':
                    counts['C01'] += 1
                    if not hist.in_language(tkey, v[1]):
                        fail('C01', h, f'to_string(intelligent_choice={ic}) emits {list(v[1])}, not a word of the content model')
                elif v[0] == 'malformed':
                    fail('C16', h, 'output is not well-formed')
                elif v[1] not in {c.__name__ for c in lib.documented}:
                    fail('C19', h + (('str', ic),), f'undocumented exception {v[1]} from to_string')
            # C16 purity / determinism: to_string has no observable effect (not repeated on the long in-order words: cost)
            if h not in extra_set:
                counts['C16'] += 1
                b = observe(h)
                for ic in (False, True):
                    a = observe(h + (('str', ic),))
                    bad = [key for key in ('ordered', 'insertion', 'verdict', 'accepts') if a[key] != b[key]]
                    if bad and (a['outs'][-1] == 'ok' or not ic):
                        fail('C16', h, f'to_string(intelligent_choice={ic}) changed {bad[0]}: {b[bad[0]]} -> {a[bad[0]]}')
                        break
        # ---- C07 / C12 on the last add
        if last[0] == 'unset' and lo == 'ok':
            counts['C11'] += 1
            remaining = hist.present_model(h, outs)
            twin = tuple(('add', a) for a in remaining)
            et, to, _, _ = hist.run(lib, name, twin)
            if all(o == 'ok' for o in to):
                a_, b_ = observe(h), observe(twin)
                for key in ('verdict', 'accepts'):
                    if a_[key] != b_[key]:
                        fail('C11', h, f'{key} differs from a fresh element holding {remaining}: {b_[key]} vs {a_[key]}')
                        break
        if last[0] in ('add', 'addf'):     # failed attempts earlier in the history are allowed: they must have been no-ops
            e0, _, _, _ = hist.run(lib, name, prev)
            before = hist.views(e0)[0]
            if lo == 'ok':
                counts['C07'] += 1
                if not hist.completable(tkey, hist.parikh(ordered)):
                    fail('C07', h, f'accepted, but no valid child sequence contains {sorted(ordered)}')
            elif last[0] == 'add' and lo[4:] in {c.__name__ for c in lib.structural}:
                counts['C12'] += 1
                if hist.completable(tkey, hist.parikh(before + [last[1]])):
                    fail('C12', h, f'{last[1]} rejected ({lo[4:]}) although {sorted(before + [last[1]])} can be arranged into a valid sequence')
        # ---- C12 unique arrangement / C02 in-order words (adds only)
        if all(op[0] == 'add' for op in h):
            w = tuple(op[1] for op in h)
            if xsdspec.viable_prefix(model, list(w)):
                counts['C02'] += 1
                if any(o != 'ok' for o in outs):
                    fail('C02', h, f'in-order valid prefix rejected at step {[o != "ok" for o in outs].index(True)}: {outs}')
                elif tuple(ordered) != w:
                    fail('C02', h, f'supplied in document order {list(w)} but held as {ordered}')
                elif hist.in_language(tkey, w):
                    e2, _, _, _ = hist.run(lib, name, h)
                    v = hist.verdict(e2)
                    if v != ('ok', w):
                        fail('C02', h, f'complete valid word {list(w)}: to_string gives {v}')
                    else:
                        # C18: for a valid in-order word the unchecked twin serialises byte-identically
                        ec, _, _, _ = hist.run(lib, name, h)
                        eu, _, _, _ = hist.run(lib, name, h, check=False)
                        try:
                            same = ec.to_string() == eu.to_string()
                        except Exception as ex:
                            same = False
                        counts['C18'] += 1
                        if not same:
                            fail('C18', h, 'valid in-order children: output of the xsd_check=False twin differs from the checked element')
            ua = unique_arrangement(tkey, w)
            if ua is not None:
                counts['C12'] += 1
                if any(o != 'ok' for o in outs):
                    fail('C12', h, f'children {list(w)} have exactly one valid arrangement {list(ua)} but adding in this order is rejected: {outs}')
                else:
                    e2, _, _, _ = hist.run(lib, name, h)
                    v = hist.verdict(e2)
                    if v != ('ok', ua):
                        fail('C12', h, f'unique arrangement {list(ua)} expected, to_string gives {v}')
        # ---- C11 removal
        if last[0] == 'rm' and lo == 'ok':
            counts['C11'] += 1
            remaining = hist.present_model(h, outs)
            twin = tuple(('add', a) for a in remaining)
            et, to, _, _ = hist.run(lib, name, twin)
            if all(o == 'ok' for o in to):
                a, b = observe(h), observe(twin)
                for key in ('verdict', 'accepts'):
                    if a[key] != b[key]:
                        fail('C11', h, f'{key} differs from a fresh element holding {remaining}: {b[key]} vs {a[key]}')
                        break
        # ---- C18: same history on an unchecked element
        if all(op[0] in ('add', 'rm', 'rep') for op in h):
            counts['C18'] += 1
            eu, ou, ku, _ = hist.run(lib, name, h, check=False)
            if any(o.startswith('exc:') for o in ou):
                fail('C18', h, f'xsd_check=False element raises {ou}')
            else:
                mp_ = hist.present_model(h, ou)
                got = [c.name for c in eu.get_children()]
                if got != mp_:
                    fail('C18', h, f'xsd_check=False children {got}, insertion order {mp_}')
    return dict(tkey=tkey, name=name, alphabet=len(alpha), k_add=k_add, histories=n_hist, counts=counts, fails=fails, seconds=round(time.time() - t0, 1))


def sweep(tier='quick', force=False):
    cdir = os.path.join(os.environ.get('VERIF_OUT') or VERIF, '.cache')
    os.makedirs(cdir, exist_ok=True)
    key = source_hash()
    path = os.path.join(cdir, f'hist-{tier}-{key}.json')
    if os.path.exists(path) and not force:
        return json.load(open(path))
    tasks = []
    for t, n in sorted(type_elements().items()):
        a = len(xsdspec.alphabet(xsdspec.MODELS[t]))
        nsh = 16 if a >= 20 else 8 if a >= 12 else 2 if a >= 7 else 1
        tasks.extend((t, n, tier, i, nsh) for i in range(nsh))
    # biggest alphabets first
    tasks.sort(key=lambda a: -len(xsdspec.alphabet(xsdspec.MODELS[a[0]])))
    from .par import run_tasks
    res = []
    t0 = time.time()
    hard = 1500 if tier == 'quick' else 7200
    timed_out = []
    for t, kind, val in run_tasks(eval_type, tasks, hard_timeout=hard):
        if kind == 'ok':
            res.append(val)
        else:
            # a shard that hangs or dies: the type is undecided in the bounded layer (reported by the property checks)
            timed_out.append((t[0], kind, str(val)[:300]))
    merged = {}
    for r in res:
        m = merged.setdefault(r['tkey'], dict(tkey=r['tkey'], name=r['name'], alphabet=r['alphabet'], k_add=r['k_add'], histories=0,
                                              counts={p: 0 for p in PROPS}, fails=[], seconds=0.0))
        m['histories'] += r['histories']
        m['seconds'] = round(m['seconds'] + r['seconds'], 1)
        for p, c in r['counts'].items():
            m['counts'][p] += c
        m['fails'].extend(r['fails'])
    for m in merged.values():
        m['fails'].sort()
    out = dict(tier=tier, source_hash=key, wall_s=round(time.time() - t0, 1), types=sorted(merged.values(), key=lambda r: r['tkey']), failed_shards=timed_out)
    tmp = path + f'.{os.getpid()}'
    with open(tmp, 'w') as f:
        json.dump(out, f)
    os.replace(tmp, path)
    return out


if __name__ == '__main__':
    r = sweep(sys.argv[1] if len(sys.argv) > 1 else 'quick', force=True)
    import collections
    c = collections.Counter()
    for t in r['types']:
        for p, h, d in t['fails']:
            c[p] += 1
    print(r['wall_s'], 's', sum(t['histories'] for t in r['types']), 'histories', dict(c))
    slow = sorted(r['types'], key=lambda t: -t['seconds'])[:8]
    print([(t['tkey'], t['alphabet'], t['k_add'], t['histories'], t['seconds']) for t in slow])
