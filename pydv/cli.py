"""./check <property-id> [--tier quick|thorough]   |   ./check replay <file>   |   ./check selftest"""
import argparse
import importlib
import os
import sys
import traceback

INSTRUMENTED = {'C01', 'C02', 'C04', 'C05', 'C06', 'C07', 'C08', 'C09', 'C10', 'C11', 'C12', 'C13', 'C14', 'C15', 'C16', 'C17',
                'C18', 'C19'}


def main(argv=None):
    ap = argparse.ArgumentParser()
    ap.add_argument('what')
    ap.add_argument('arg', nargs='?')
    ap.add_argument('--tier', default=os.environ.get('VERIF_TIER', 'quick'))
    a = ap.parse_args(argv)
    seed = int(os.environ.get('VERIF_SEED', '0') or 0)
    if a.what == 'replay':
        from . import report
        rc, out = report.run_replay(a.arg)
        print(out)
        return rc if rc is not None else 3
    if a.what == 'selftest':
        from . import selftest
        return selftest.main(a.tier)
    prop = a.what.upper()
    try:
        if prop in INSTRUMENTED:
            from . import instr
            instr.install()
        mod = importlib.import_module(f'pydv.checks.{prop.lower()}')
        return mod.run(tier=a.tier, seed=seed)
    except SystemExit:
        raise
    except BaseException:
        traceback.print_exc()
        print(f'CHECKER-ERROR property={prop}: checker crashed', file=sys.stderr)
        return 3


if __name__ == '__main__':
    sys.exit(main())
