"""C17 -- write() is all-or-nothing; file I/O does not depend on the process locale.

Functions under contract: XMLScorePartwise.write, parser.parse_musicxml, generate_classes.utils (module level,
get_all_et_elements).  File-system effects are modelled by the assumed contract of open():
   open(p, 'w'...) truncates p at the call;  text mode without encoding= uses the locale's encoding.
Obligations
  write/raise-before-open   to_string (callee, replaced by its contract: returns a str or raises anything) raises
                            =>  no open() event for the destination happened, the exception propagates
  write/content             to_string returns S  =>  exactly one open(path, 'w', encoding='utf-8'), the concatenation of
                            the write() calls is DECLARATION + S, the file object is closed
  write/nothing-can-fail-while-open
                            between open() and close() write() enters no function of the library or of xml.etree (every such
                            call could raise with the destination already truncated); observed with sys.setprofile on the
                            real body, for a checked and an unchecked tree
  open/<site>               precondition of the assumed contract at every open() call site of the library, both statically
                            (AST of every non-test, non-generator module) and at run time during import / write / parse:
                            binary mode or explicit encoding=
"""
import ast
import glob
import os
import sys

from .. import engine as E
from .. import report

DECL = '<?xml version="1.0" encoding="UTF-8" standalone="no"?>\n'


class FakeFile:
    def __init__(self, log, path, mode, kw):
        self.log = log
        self.path = path
        self.closed = False
        log.append(('open', str(path), mode, dict(kw)))

    def write(self, s):
        self.log.append(('write', s))
        return len(s)

    def __enter__(self):
        return self

    def __exit__(self, *a):
        self.closed = True
        self.log.append(('close',))
        return False

    def close(self):
        self.__exit__()


def static_open_sites(repo):
    out = []
    for path in sorted(glob.glob(os.path.join(repo, 'musicxml', '**', '*.py'), recursive=True)):
        rel = os.path.relpath(path, repo)
        if '/tests/' in rel or rel.startswith('musicxml/generate_classes/generate_') or '/defaults/' in rel or '/profiler/' in rel or os.path.basename(rel).startswith('_test'):
            continue
        tree = ast.parse(open(path, encoding='utf-8').read())
        for n in ast.walk(tree):
            if isinstance(n, ast.Call) and isinstance(n.func, ast.Name) and n.func.id == 'open':
                mode = None
                if len(n.args) > 1 and isinstance(n.args[1], ast.Constant):
                    mode = n.args[1].value
                for k in n.keywords:
                    if k.arg == 'mode' and isinstance(k.value, ast.Constant):
                        mode = k.value.value
                enc = any(k.arg == 'encoding' for k in n.keywords)
                dynamic = (len(n.args) > 1 and not isinstance(n.args[1], ast.Constant))
                out.append((rel, n.lineno, mode, enc, dynamic))
    return out


def run(tier='quick', seed=0):
    R = report.Run('C17', tier, seed, category='proof')
    R.functions = ['XMLScorePartwise.write', 'parser.parse_musicxml', 'generate_classes.utils (module level)', 'generate_classes.utils.get_all_et_elements']
    R.assumptions += ['assumed contract of open(): mode "w" truncates at the call; text mode without encoding= uses the locale encoding; binary mode is locale independent',
                      'assumed contract of ElementTree.parse on a binary file object: the encoding is taken from the XML declaration / BOM, never from the locale',
                      'XMLElement.to_string is replaced by its contract at the call site in write() (returns a str or raises); its own behaviour is C01/C16',
                      'file.write(s) on an opened text file can only fail for I/O reasons (out of scope of the property: "before the document text exists")']
    runtime_opens = []

    def open_stub(real, *a, **k):
        mode = a[1] if len(a) > 1 else k.get('mode', 'r')
        runtime_opens.append((str(a[0]), mode, 'encoding' in k, sys._getframe(2).f_code.co_filename, sys._getframe(2).f_lineno))
        return real(*a, **k)
    E.EXT['open'] = open_stub
    import musicxml.xmlelement.xmlelement as X       # import-time opens are recorded
    import musicxml.parser.parser as P
    import musicxml.generate_classes.utils as U
    from .. import instr
    if instr.roundtrip_report():
        R.checker_errors.append(f'instrumentation round-trip failed for {instr.roundtrip_report()}')

    def ob(oid, ok, detail=None, level='proved', replay=None, paths=1, backend='path-enumeration'):
        o = report.Ob(oid, 'discharged' if ok else 'violated', level=level, backend=backend, detail=None if ok else detail, paths=paths)
        if not ok:
            if replay:
                o.replay = report.write_replay('C17', oid, replay, header=str(detail))
                rc, out = report.run_replay(o.replay)
                if rc != 1:
                    o.status = 'crash'
                    o.detail = f'violation does not replay natively (rc={rc}): {detail} :: {out[-300:]}'
            k = R.match_known(oid, detail)
            if k is not None and o.status == 'violated':
                o.status = 'known'
                o.detail = k['what']
        R.add(o)

    # ---- write(): callee to_string by contract
    class Boom(Exception):
        pass

    REPLAY_WRITE = '''import tempfile
from musicxml.xmlelement.xmlelement import *
d = tempfile.mkdtemp(); bad = 0
class Bogus:                 # a child that can be attached to an unchecked tree but cannot be serialised
    _parent = None
cases = {'validation failure (incomplete checked score)': lambda: XMLScorePartwise(),
         'serialisation failure (unchecked tree, child without et_xml_element)': lambda: (lambda s: (s.add_child(Bogus()), s)[1])(XMLScorePartwise(xsd_check=False))}
for what, mk in cases.items():
  for prior in ('PREVIOUS', None):          # every prior state of the destination: existing content, or absent
    p = os.path.join(d, 'x.xml')
    if os.path.exists(p): os.remove(p)
    if prior is not None: open(p, 'w', encoding='utf-8').write(prior)
    s = mk()
    try:
        s.write(p); print(what, ': write did not raise')
    except Exception as e:
        after = open(p, encoding='utf-8').read() if os.path.exists(p) else None
        print(what, '(prior state %r)' % (prior,), ': write raised', type(e).__name__, '; destination now:', repr(after if after is None else after[:60]))
        if after != prior: bad = 1
s = XMLScorePartwise(xsd_check=False); s.add_child(XMLMovementTitle('Gr\\u00fc\\u00dfe \\u266b'))
p = os.path.join(d, 'y.xml'); s.write(p)
data = open(p, 'rb').read()
want = ('<?xml version="1.0" encoding="UTF-8" standalone="no"?>\\n' + s.to_string()).encode('utf-8')
print('content is declaration + to_string() in UTF-8:', data == want)
if data != want: bad = 1
sys.exit(bad)
'''
    for xsd in (True, False):
        for outcome in ('raise', 'return'):
            log = []
            E.EXT['open'] = lambda real, *a, **k: FakeFile(log, a[0], a[1] if len(a) > 1 else k.get('mode', 'r'), {kk: v for kk, v in k.items() if kk != 'mode'})
            s = X.XMLScorePartwise(xsd_check=xsd)
            calls = []

            def to_string_stub(intelligent_choice=False, _o=outcome):
                calls.append(intelligent_choice)
                log.append(('to_string',))
                if _o == 'raise':
                    raise Boom()
                return 'S♫'
            object.__setattr__(s, 'to_string', to_string_stub)
            try:
                s.write('DEST', intelligent_choice=True)
                got = 'return'
            except Boom:
                got = 'raise'
            except Exception as ex:
                got = 'other:' + type(ex).__name__
            finally:
                E.EXT['open'] = open_stub
            opens = [e for e in log if e[0] == 'open']
            if outcome == 'raise':
                ok = got == 'raise' and not opens
                ob(f'C17/write/raise-before-open/xsd_check={xsd}', ok, f'to_string raised but events were {log} (outcome {got})', replay=REPLAY_WRITE)
            else:
                text = ''.join(e[1] for e in log if e[0] == 'write')
                ok = (got == 'return' and len(opens) == 1 and opens[0][1] == 'DEST' and opens[0][2] == 'w' and str(opens[0][3].get('encoding', '')).lower().replace('_', '-') in ('utf-8', 'utf8')
                      and text == DECL + 'S♫' and log[-1] == ('close',) and calls == [True])
                ob(f'C17/write/content/xsd_check={xsd}', ok, f'events {log} (outcome {got}; intelligent_choice passed on: {calls})', replay=REPLAY_WRITE)

    # ---- nothing that can fail runs while the destination is open (real body, real to_string)
    import tempfile
    for kind in ('checked', 'unchecked'):
        d = tempfile.mkdtemp(prefix='c17')
        s = X.XMLScorePartwise(xsd_check=(kind == 'checked'))
        if kind == 'checked':
            pl = s.add_child(X.XMLPartList()); sp = pl.add_child(X.XMLScorePart(id='P1')); sp.add_child(X.XMLPartName('x'))
            p = s.add_child(X.XMLPart(id='P1')); p.add_child(X.XMLMeasure(number='1'))
        else:
            s.add_child(X.XMLMovementTitle('t'))
        state = {'open': False, 'bad': []}

        def open_watch(real, *a, **k):
            f = real(*a, **k)
            mode = a[1] if len(a) > 1 else k.get('mode', 'r')
            if 'w' in mode or 'a' in mode or '+' in mode:
                state['open'] = True
                orig_exit = f.__exit__
            return _Watched(f, state)

        def prof(frame, event, arg):
            if state['open'] and event == 'call':
                fn = frame.f_code.co_filename
                if ('/musicxml/' in fn or '/xml/etree' in fn or 'verysimpletree' in fn) and 'pydv' not in fn:
                    state['bad'].append(f'{os.path.basename(fn)}:{frame.f_code.co_name}')
        E.EXT['open'] = open_watch
        sys.setprofile(prof)
        try:
            s.write(os.path.join(d, 'o.xml'))
            err = None
        except Exception as ex:
            err = repr(ex)
        finally:
            sys.setprofile(None)
            E.EXT['open'] = open_stub
        import shutil
        shutil.rmtree(d, ignore_errors=True)
        ob(f'C17/write/nothing-can-fail-while-open/{kind}', not state['bad'] and err is None,
           f'while the destination was open write() entered {sorted(set(state["bad"]))[:6]} (err={err})', replay=REPLAY_WRITE, backend='call-trace of the real body')

    # ---- open() call sites
    sites = static_open_sites(os.environ.get('VERIF_REPO', '/repo'))
    for rel, line, mode, enc, dynamic in sites:
        ok = (not dynamic) and (enc or (mode is not None and 'b' in mode))
        src = f"import subprocess\ncode = 'import sys; sys.path.insert(0, %r); import musicxml.xmlelement.xmlelement' % os.environ.get('MUSICXML_ROOT', '/repo')\nenv = dict(os.environ, LC_ALL='C', LANG='C', PYTHONUTF8='0', PYTHONCOERCECLOCALE='0'); env.pop('PYTHONIOENCODING', None)\nr = subprocess.run([sys.executable, '-W', 'ignore', '-c', code], env=env, capture_output=True, text=True)\nprint('import under LC_ALL=C rc', r.returncode, r.stderr[-300:])\nprint({rel!r}, {line}, 'open() mode', {mode!r}, 'encoding given:', {enc})\nsys.exit(1)\n"
        ob(f'C17/open/{rel}:{_site_name(rel, line)}', ok, f'{rel}:{line}: open() with mode {mode!r} and no explicit encoding depends on the locale', level='finite-complete',
           replay=src, backend='AST scan')
    if not sites:
        R.checker_errors.append('no open() call sites found (vacuous)')
    # run-time: every open performed during import, parse and get_all_et_elements
    d = tempfile.mkdtemp(prefix='c17')
    pth = os.path.join(d, 'in.xml')
    with open(pth, 'wb') as f:
        f.write('<?xml version="1.0" encoding="UTF-8"?><score-partwise version="4.0"><movement-title>♫</movement-title></score-partwise>'.encode('utf-8'))
    try:
        P.parse_musicxml(pth)
    except Exception:
        pass
    try:
        U.get_all_et_elements(U.xml_xsd_path, 'simpleType')
    except Exception as ex:
        pass
    import shutil
    shutil.rmtree(d, ignore_errors=True)
    lib_opens = [o for o in runtime_opens if '/musicxml/' in o[3]]
    bad = [o for o in lib_opens if not (o[2] or 'b' in o[1])]
    ob('C17/open/runtime', bool(lib_opens) and not bad, f'open() calls depending on the locale at run time: {bad[:4]} (observed {len(lib_opens)})', level='finite-complete',
       paths=len(lib_opens), backend='ext hook', replay="import subprocess\ncode = 'import sys; sys.path.insert(0, %r); import musicxml.xmlelement.xmlelement' % os.environ.get('MUSICXML_ROOT', '/repo')\nenv = dict(os.environ, LC_ALL='C', LANG='C', PYTHONUTF8='0', PYTHONCOERCECLOCALE='0'); env.pop('PYTHONIOENCODING', None)\nr = subprocess.run([sys.executable, '-W', 'ignore', '-c', code], env=env, capture_output=True, text=True)\nprint('import under LC_ALL=C rc', r.returncode, r.stderr[-300:])\nsys.exit(1 if r.returncode else 0)\n")
    E.EXT.pop('open', None)
    R.explanation = ('write(): both outcomes of the callee contract x both xsd_check values (the body is loop-free: complete path enumeration), call trace of the real body '
                     f'while the destination is open, {len(sites)} open() call sites checked statically and {len(lib_opens)} at run time.')
    R.extra['exhaustive'] = True
    return R.finish()


def _site_name(rel, line):
    return f'L{line}'


class _Watched:
    def __init__(self, f, state):
        self._f = f
        self._s = state

    def __enter__(self):
        self._f.__enter__()
        return self

    def __exit__(self, *a):
        self._s['open'] = False
        return self._f.__exit__(*a)

    def write(self, s):
        return self._f.write(s)

    def __getattr__(self, n):
        return getattr(self._f, n)
