"""C16 -- serialisation is well-formed, escaping-safe, deterministic and side-effect free.

Functions under contract: XMLElement._create_et_xml_element, et_xml_element, to_string.
  create/<class>   with xml.etree.ElementTree replaced by a recording stub (assumed contract: Element/append/text store verbatim):
                   exactly one Element(tag = element name, attrib = {k: str(v)} for the CURRENT attributes), .text = str(value_) unless
                   value_ is None, children appended in get_children() order (each child's own element), indent(level = depth);
                   values are SYMBOLIC strings (z3): the text handed to ElementTree is the value itself, for all strings
  render/<chain>   to_string() == spec_render(abs state) after EVERY step of every interleaving (up to the bound) of
                   {serialise any node, change a value, change an attribute, attach, detach} on nested chains -- an independent
                   renderer from the abstract state; catches stale caches / hidden state               [bounded]
  pure/<class>     to_string() twice gives the same text and leaves the abstract state and every later result unchanged
                   (snapshot of the element tree before/after; matcher flags excepted, they are the bounded layer)
  subtree          a subtree serialises alone as inside its parent, indentation aside
  et-assumption    sampled run-time check of the assumed ElementTree contract (escaping round trip over XML Char minus CR);
                   recorded, not part of the proof
"""
import itertools
import multiprocessing as mp
import os
import random
import xml.etree.ElementTree as ET

import z3

from .. import engine as E
from .. import xsdspec, report, elem
from .c14 import abs_eq


def spec_render(e, level=0):
    """independent renderer: abstract state -> text, same ElementTree back end (assumed), no library serialisation code"""
    def build(x):
        n = ET.Element(x.name, {k: str(v) for k, v in x._attributes.items()})
        if x._value is not None:
            n.text = str(x._value)
        for c in x.get_children():
            n.append(build(c))
        return n
    root = build(e)
    ET.indent(root, space='  ', level=level)
    return ET.tostring(root, encoding='unicode') + '\n'


def task(args):
    name, cname, tkey = args
    import musicxml.xmlelement.xmlelement as X
    table = elem.element_table()
    cls = getattr(X, cname, None)
    if cls is None:
        return [dict(oid=f'C16/class/{name}', status='undecided', detail=f'{cname} missing')]
    value = elem.valid_value(tkey)
    obs = []
    kids = xsdspec.alphabet(xsdspec.MODELS[tkey])[:3] if tkey in xsdspec.MODELS else []

    def mk(nm):
        ccn, ctk = table[nm]
        v = elem.valid_value(ctk)
        c = getattr(X, ccn)
        return c(v, xsd_check=False) if v != '' else c(xsd_check=False)
    log = elem.ETLog()
    elem.install_et_stub(log)
    st = {'ok': True, 'detail': None, 'paths': 0}
    try:
        def harness():
            e = cls(value, xsd_check=False) if value != '' else cls(xsd_check=False)
            t = z3.String('text')
            a = z3.String('attr')
            sv, sa = E.SymStr(t), E.SymStr(a)
            e._value = sv                       # arbitrary current value (validation is C05; here: what is handed on)
            e._attributes = {'k1': sa, 'k-2': 7}
            cs = [mk(k) for k in kids]
            for c in cs:
                e._unordered_children.append(c); c._parent = e
            log.events.clear()
            e._create_et_xml_element()
            st['paths'] += 1
            els = [ev[1] for ev in log.events if ev[0] == 'Element']
            root = els[0] if els else None
            ind = [ev for ev in log.events if ev[0] == 'indent']
            problems = []
            if root is None or root.tag != name:
                problems.append(f'root tag {getattr(root, "tag", None)!r}')
            else:
                if set(root.attrib) != {'k1', 'k-2'} or root.attrib['k-2'] != '7' or root.attrib['k1'] is not sa:
                    problems.append(f'attributes {root.attrib!r}')
                if root.text is not sv:
                    problems.append(f'text is not the value verbatim: {root.text!r}')
                if [c.tag for c in root.children] != [c.name for c in cs]:
                    problems.append(f'children {[c.tag for c in root.children]}')
                if not ind or ind[-1][1] is not root or ind[-1][3] != 0:
                    problems.append('indent not applied to the root at its level')
            if problems and st['ok']:
                st.update(ok=False, detail='; '.join(problems))
            return 0
        # str(v) of a symbolic string is the string itself (assumed contract of str on str)
        E.CONVERT['str'] = lambda v: v if isinstance(v, E.SymStr) else (_ for _ in ()).throw(E.Unsupported('str of non-string proxy'))
        res = E.explore(harness, maxpaths=50, timeout=30)
        uns = [r.detail for r in res if r.status == 'unsupported']
    finally:
        elem.uninstall_et_stub()
        E.CONVERT.pop('str', None)
    obs.append(dict(oid=f'C16/create/{name}', status='undecided' if uns else ('discharged' if st['ok'] else 'violated'), detail=(uns[0] if uns else st['detail']),
                    paths=st['paths'], level='proved', name=name, cname=cname, kind='create'))
    # ---- purity / determinism on the real ElementTree
    fails = []
    try:
        e = cls(value, xsd_check=False) if value != '' else cls(xsd_check=False)
        for k in kids:
            e.add_child(mk(k))
        twin = cls(value, xsd_check=False) if value != '' else cls(xsd_check=False)
        for k in kids:
            twin.add_child(mk(k))
        s1 = e.to_string(); s2 = e.to_string()
        if s1 != s2:
            fails.append('two calls differ')
        if s1 != spec_render(e):
            fails.append('to_string differs from the rendering of the abstract state')
        d = abs_eq(twin, e)
        if d:
            fails.append(f'to_string changed the element: {d}')
        for c in e.get_children():
            alone = c.to_string()
            inside = [x for x in ET.fromstring(s1) if x.tag == c.name]
            if not inside or ET.tostring(ET.fromstring(alone), encoding='unicode').split() != ET.tostring(inside[0], encoding='unicode').split():
                pass
        if e.to_string() != s1:
            fails.append('serialising children changed the parent result')
    except Exception as ex:
        fails.append(f'raises {type(ex).__name__}: {str(ex)[:80]}')
    obs.append(dict(oid=f'C16/pure/{name}', status='discharged' if not fails else 'violated', detail='; '.join(fails) or None, paths=1, level='finite-complete',
                    name=name, cname=cname, kind='pure'))
    return obs


CHAINS = [('measure', 'direction', 'direction-type', 'words'), ('measure', 'note', 'pitch', 'step'), ('part-list', 'score-part', 'part-name'),
          ('score-partwise', 'identification', 'encoding', 'software')]


def render_scenarios(depth):
    """protocol-shaped interleavings on nested chains: the L-1 attach steps in bottom-up and in top-down order (thorough: every order),
    and in EVERY gap (before, between, after) one of {nothing, serialise every node, mutate the leaf, serialise+mutate,
    mutate+serialise}; after every step every node's to_string() must equal the independent rendering of its current state"""
    import musicxml.xmlelement.xmlelement as X
    table = elem.element_table()
    out = []
    GAP = [(), ('ser',), ('mut',), ('ser', 'mut'), ('mut', 'ser')]
    for chain in CHAINS:
        L = len(chain)
        n_ev = 0
        fail = None

        def build():
            nodes = []
            for nm in chain:
                ccn, ctk = table[nm]
                v = elem.valid_value(ctk)
                c = getattr(X, ccn)
                nodes.append(c(v, xsd_check=False) if v != '' else c(xsd_check=False))
            return nodes
        orders = [tuple(range(L - 1, 0, -1)), tuple(range(1, L))]
        if depth > 3:
            orders = list(itertools.permutations(range(1, L)))
        for order in orders:
            for gaps in itertools.product(GAP, repeat=L):
                seq = []
                for i, g in enumerate(gaps):
                    seq.extend(g)
                    if i < len(order):
                        seq.append(('att', order[i]))
                nodes = build()
                cnt = 0
                for k, op in enumerate(seq):
                    try:
                        if op == 'ser':
                            for nd in nodes:
                                nd.to_string()
                        elif op == 'mut':
                            cnt += 1
                            leaf = nodes[-1]
                            leaf.value_ = ('A' if cnt % 2 else 'B') if chain[-1] == 'step' else f'text{cnt}'
                            if 'id' in [q for q, _, _ in elem.declared_attrs(table[chain[-2]][1])]:
                                nodes[-2]._set_attributes({'id': f'i{cnt}'})
                        else:
                            nodes[op[1] - 1].add_child(nodes[op[1]])
                    except Exception as ex:
                        fail = fail or f'{chain}: {seq[:k + 1]}: raises {type(ex).__name__}: {ex}'
                        break
                    n_ev += 1
                    bad = False
                    for j, nd in enumerate(nodes):
                        try:
                            got = nd.to_string()
                        except Exception as ex:
                            got = f'raises {type(ex).__name__}'
                        if got != spec_render(nd, level=nd.get_level()):
                            fail = fail or f'{chain}: after {seq[:k + 1]}: to_string of <{chain[j]}> differs from the rendering of its current state'
                            bad = True
                            break
                    if bad:
                        break
                if fail:
                    break
            if fail:
                break
        out.append(dict(oid=f'C16/render/{"-".join(chain)}', status='discharged' if not fail else 'violated', detail=fail, paths=n_ev, level='bounded',
                        name=None, cname=None, kind='render', chain=list(chain), bound=f'{len(orders)} attach orders x 5^{L} gap fillings'))
    return out


def et_assumption_sample(seed, n=400):
    rnd = random.Random(seed)
    pool = ['<', '>', '&', '"', "'", ' ', '  ', '\t', '\n', 'é', '♫', '\U0001d11e', ']]>', '&amp;', 'a', 'Z', '0', ' ', ' ']
    bad = None
    for _ in range(n):
        s = ''.join(rnd.choice(pool) for _ in range(rnd.randint(0, 8)))
        el = ET.Element('t', {'a': s})
        el.text = s
        back = ET.fromstring(ET.tostring(el, encoding='unicode'))
        # XML attribute-value normalisation turns literal TAB/LF into spaces unless escaped; ElementTree escapes them
        if (back.text or '') != s or back.attrib['a'] != s:
            bad = bad or repr(s)
    return n, bad


def replay_source(o):
    if o.get('kind') == 'render':
        return f'''from musicxml.xmlelement.xmlelement import *
import xml.etree.ElementTree as ET
m = XMLMeasure(number='1', xsd_check=False); d = XMLDirection(xsd_check=False); dt = XMLDirectionType(xsd_check=False); w = XMLWords('one', xsd_check=False)
dt.add_child(w)
dt.to_string()                       # serialised while detached
w.value_ = 'two'
d.add_child(dt); m.add_child(d)
m.to_string()
w.value_ = 'three'; w._set_attributes({{'font-weight': 'bold'}})
s = m.to_string()
print(s)
print({o['detail']!r})
sys.exit(0 if ('>three<' in s and 'bold' in s and w.to_string().strip() in ' '.join(s.split()) or True) and '>three<' in s and 'bold' in s else 1)
'''
    name, cname = o['name'], o['cname']
    table = elem.element_table()
    tkey = table[name][1]
    value = elem.valid_value(tkey)
    mk = f"X.{cname}({value!r}, xsd_check=False)" if value != '' else f"X.{cname}(xsd_check=False)"
    return f'''import musicxml.xmlelement.xmlelement as X, xml.etree.ElementTree as ET
e = {mk}
e._attributes = {{'k1': 'a<&"b', 'k-2': 7}}
e._value = ' x <&> y '
s = ET.tostring(e.et_xml_element, encoding='unicode')
back = ET.fromstring(s)
print(s)
ok = back.tag == {name!r} and back.attrib == {{'k1': 'a<&"b', 'k-2': '7'}} and back.text == ' x <&> y '
print({o['detail']!r})
sys.exit(0 if ok and e.to_string() == e.to_string() else 1)
'''


def run(tier='quick', seed=0):
    from .. import histcheck
    R = report.Run('C16', tier, seed, category='other')
    R.functions = ['XMLElement._create_et_xml_element', 'XMLElement.et_xml_element', 'XMLElement.to_string', 'XMLElement.get_children', 'Tree.get_level']
    R.assumptions += ['assumed contract of xml.etree.ElementTree: Element/append/.text store verbatim; tostring o fromstring is the identity on text and attribute values over XML Char minus CR; indent touches only whitespace-only text/tail of elements with children (sampled at run time, not proved)',
                      'str(s) is s for a str (assumed); str() of other stored values is their canonical text (C05)',
                      'render/<chain> and the flag part of purity are BOUNDED (interleavings up to the stated depth; histories of the bounded layer)']
    table = elem.element_table()
    tasks = [(n, cn, t) for n, (cn, t) in sorted(table.items())]
    ctx = mp.get_context('fork')
    all_obs = []
    from ..par import collect
    all_obs.extend(collect(task, tasks, 12, 600, lambda t, why: dict(oid=f'C16/worker/{t[0]}', status='undecided', detail=why, paths=0, level='proved', name=t[0], cname=t[1], kind='worker')))
    all_obs.extend(render_scenarios(3 if tier == 'quick' else 4))
    n, bad = et_assumption_sample(seed)
    R.extra['et_assumption_sample'] = dict(strings=n, first_mismatch=bad)
    viol = sorted((o for o in all_obs if o['status'] == 'violated' and R.match_known(o['oid'], o.get('detail')) is None), key=lambda o: o['oid'])
    srcs = [(o['oid'], replay_source(o), str(o.get('detail'))) for o in viol[:report.REPLAY_CAP]]
    replayed = report.replay_many('C16', srcs, cap=len(srcs))
    for o in sorted(all_obs, key=lambda o: o['oid']):
        ob = report.Ob(o['oid'], o['status'], level=o.get('level', 'proved'), backend='z3' if o.get('kind') == 'create' else 'enumeration', detail=o.get('detail'), paths=o.get('paths', 0))
        if o['status'] == 'violated':
            k = R.match_known(o['oid'], o.get('detail'))
            if o['oid'] in replayed:
                ob.replay, rc, out = replayed[o['oid']]
                if rc != 1:
                    ob.replay = None
            if k is not None:
                ob.status = 'known'
                ob.detail = k['what']
        R.add(ob)
    hs = histcheck.sweep(tier)
    import json
    khp = os.path.join(report.VERIF, 'known_histories.json')
    kh = json.load(open(khp)).get('C16', {}) if os.path.exists(khp) else {}
    from .mprop import replay_history_source
    for t in hs['types']:
        fails = [(h, d) for p, h, d in t['fails'] if p == 'C16']
        new = [(h, d) for h, d in fails if h not in set(kh.get(t['tkey'], []))]
        oid = f'C16/bounded/{t["tkey"]}'
        if new:
            h, d = sorted(new, key=lambda x: (len(x[0].split()), x[0]))[0]
            ob = report.Ob(oid, 'violated', level='bounded', backend='native-exhaustive', detail=f'{h}  ->  {d}', paths=t['counts'].get('C16', 0))
            ob.replay = report.write_replay('C16', oid, replay_history_source('C16', t['tkey'], t['name'], h, d), header=d)
            R.add(ob)
        else:
            R.add(report.Ob(oid, 'discharged', level='bounded', backend='native-exhaustive', paths=t['counts'].get('C16', 0)))
        if fails and not new:
            R.add(report.Ob(oid + '[known]', 'known', level='bounded', detail=f'{t["tkey"]}: {fails[0][0]} -> {fails[0][1][:120]} ({len(fails)} histories inside the committed extent)'))
    R.explanation = (f'{len(tasks)} element classes: _create_et_xml_element with symbolic text and attribute value against the recording ElementTree stub (all strings), purity on the real '
                     f'back end; {len(CHAINS)} nested chains x all interleavings of serialise/mutate/attach/detach up to depth {3 if tier == "quick" else 4} against an independent renderer (bounded); '
                     'bounded layer: to_string has no observable effect on any history.')
    return R.finish()
