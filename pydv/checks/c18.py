"""C18 -- xsd_check=False switches off structural checking and nothing else.

Functions under contract: XMLElement.add_child, remove, replace_child, get_children, to_string, _final_checks (xsd_check paths).
Per element class, on an element e with xsd_check=False whose matcher is replaced by a TRIPWIRE (any use of it is recorded):
   nomatcher   add_child(c[, forward]) / remove(c) / replace_child(old, new) / get_children() / to_string() never touch the matcher,
               never raise, for children of ANY element class (declared or not) and for EVERY pre-state of the child's back-pointer
               (parent_xsd_element is None | points into a leaf of another, checked element that holds the child)
   frame       those operations write nothing outside e and the child's own parent link: the other element's leaf list and the
               child's parent_xsd_element are unchanged
   order       get_children() is the insertion list; serialisation appends the children in that order
   gating      _final_checks: a checked node validates itself wherever it sits (below an unchecked parent too); an unchecked
               node is exempt but its children are still visited
The byte-identity clause for valid in-order input is the bounded layer (histcheck, property C18) on top of C02.
"""
import multiprocessing as mp
import os

from .. import xsdspec, report, elem


class Tripwire:
    def __init__(self, log):
        object.__setattr__(self, '_log', log)

    def __getattr__(self, n):
        self._log.append(n)
        raise AssertionError(f'matcher used ({n})')

    def __bool__(self):
        self._log.append('__bool__')
        return True


def task(args):
    name, cname, tkey = args
    import musicxml.xmlelement.xmlelement as X
    import musicxml.exceptions as ME
    table = elem.element_table()
    cls = getattr(X, cname, None)
    if cls is None:
        return [dict(oid=f'C18/class/{name}', status='undecided', detail=f'{cname} missing')]
    value = elem.valid_value(tkey)
    own = xsdspec.alphabet(xsdspec.MODELS[tkey]) if tkey in xsdspec.MODELS else []
    foreign = [n for n in ('pitch', 'note', 'words', 'octave', 'score-partwise') if n not in own][:3]
    kids = own[:4] + foreign

    def mk(nm, check=False):
        ccn, ctk = table[nm]
        v = elem.valid_value(ctk)
        c = getattr(X, ccn)
        return c(v, xsd_check=check) if v != '' else c(xsd_check=check)

    def fresh():
        e = cls(value, xsd_check=False) if value != '' else cls(xsd_check=False)
        log = []
        if e._child_container_tree is not None or True:
            e._child_container_tree = Tripwire(log)
        return e, log

    def owner_for(nm):
        """a checked element that legitimately holds a child of kind nm (so that the child's back-pointer is set), or None"""
        for pn, (pcn, ptk) in table.items():
            if ptk in xsdspec.MODELS and nm in xsdspec.alphabet(xsdspec.MODELS[ptk]):
                try:
                    pv = elem.valid_value(ptk)
                    p = getattr(X, pcn)(pv) if pv != '' else getattr(X, pcn)()
                    c = mk(nm)
                    p.add_child(c)
                    return p, c
                except Exception:
                    continue
        return None, None

    fails = []
    n = 0
    for nm in kids:
        for pointer in ('none', 'owned'):
            for fwd in (None, 0):
                e, log = fresh()
                if pointer == 'owned':
                    p, c = owner_for(nm)
                    if p is None:
                        continue
                    leaf_before = list(c.parent_xsd_element.xml_elements)
                    ptr_before = c.parent_xsd_element
                else:
                    p, c = None, mk(nm)
                    ptr_before = c.__dict__.get('parent_xsd_element')
                n += 1
                try:
                    e.add_child(c) if fwd is None else e.add_child(c, forward=fwd)
                    if e.get_children() != [c] or e.get_children(ordered=False) != [c] or c.get_parent() is not e:
                        fails.append(f'add {nm}: views {e.get_children()}')
                    c2 = mk(kids[0])
                    e.add_child(c2)
                    if [id(x) for x in e.get_children()] != [id(c), id(c2)]:
                        fails.append(f'add {nm}: insertion order not kept')
                    new = mk(kids[-1])
                    e.replace_child(c, new)
                    if [id(x) for x in e.get_children()] != [id(new), id(c2)] or c.get_parent() is not None or new.get_parent() is not e:
                        fails.append(f'replace {nm}: views / parents wrong')
                    e.remove(c2)
                    if [id(x) for x in e.get_children()] != [id(new)] or c2.get_parent() is not None:
                        fails.append(f'remove: views / parents wrong')
                    e.add_child(c)
                    e.remove(c)
                except Exception as ex:
                    fails.append(f'{nm} (pointer={pointer}, forward={fwd}): raises {type(ex).__name__}: {str(ex)[:80]}')
                if log:
                    fails.append(f'{nm} (pointer={pointer}): matcher used: {log[:3]}')
                if pointer == 'owned':
                    if list(ptr_before.xml_elements) != leaf_before:
                        fails.append(f'{nm}: operations on the unchecked element changed the leaf list of the checked owner')
                    if c.__dict__.get('parent_xsd_element') is not ptr_before:
                        fails.append(f'{nm}: operations on the unchecked element changed the back-pointer of the child')
    out = [dict(oid=f'C18/nomatcher-frame-order/{name}', status='discharged' if not fails else 'violated', detail='; '.join(fails[:3]) or None, paths=n,
                name=name, cname=cname, kind='ops')]
    # ---- serialisation order and to_string on an unchecked element
    fails = []
    log2 = elem.ETLog()
    elem.install_et_stub(log2)
    try:
        e, log = fresh()
        cs = [mk(k) for k in (kids * 2)[:5]]
        for c in cs:
            e.add_child(c)
        try:
            e._final_checks()
            e._create_et_xml_element()
            roots = [ev[1] for ev in log2.events if ev[0] == 'Element'][:1]
            if not roots or [ch.tag for ch in roots[0].children] != [c.name for c in cs]:
                fails.append(f'serialised child order {[ch.tag for ch in roots[0].children] if roots else None} != insertion order {[c.name for c in cs]}')
        except Exception as ex:
            fails.append(f'to_string path raises {type(ex).__name__}: {str(ex)[:80]}')
        if log:
            fails.append(f'matcher used: {log[:3]}')
    finally:
        elem.uninstall_et_stub()
    out.append(dict(oid=f'C18/serialise-order/{name}', status='discharged' if not fails else 'violated', detail='; '.join(fails[:3]) or None, paths=1,
                    name=name, cname=cname, kind='ser'))
    return out


def gating_obligations():
    """_final_checks: per-node gating in mixed trees (real code, concrete mixed trees over both flag values at three levels)"""
    import itertools
    import musicxml.xmlelement.xmlelement as X
    import musicxml.exceptions as ME
    out = []
    # note -> pitch -> (step missing octave): incomplete at the bottom; note itself incomplete too
    for flags in itertools.product((True, False), repeat=3):
        gp, p, c = flags
        m = X.XMLMeasure(number='1', xsd_check=gp)
        n_ = X.XMLNote(xsd_check=p)
        pi = X.XMLPitch(xsd_check=c)
        st = X.XMLStep('A', xsd_check=False)
        pi.add_child(st)
        n_.add_child(pi) if p else n_._unordered_children.append(pi) or setattr(pi, '_parent', n_)
        if p:
            pass
        (m.add_child(n_) if gp else (m._unordered_children.append(n_), setattr(n_, '_parent', m)))
        # expected: raises iff some node with xsd_check=True is incomplete: pitch (needs octave) if c; note (needs duration...) if p
        want = p or c
        try:
            m._final_checks()
            got = False
        except (ME.XMLElementChildrenRequired, ME.XSDAttributeRequiredException, ValueError):
            got = True
        except Exception as ex:
            got = f'{type(ex).__name__}'
        out.append(dict(oid=f'C18/gating/measure={gp}/note={p}/pitch={c}', status='discharged' if got == want else 'violated',
                        detail=None if got == want else f'_final_checks raised={got}, expected {want} (a checked node validates itself wherever it sits; unchecked nodes are exempt but traversed)',
                        paths=1, name=None, cname=None, kind='gating', flags=list(flags)))
    return out


def replay_source(o):
    if o.get('kind') == 'gating':
        gp, p, c = o['flags']
        return f'''from musicxml.xmlelement.xmlelement import *
from musicxml.exceptions import *
m = XMLMeasure(number='1', xsd_check={gp}); n = XMLNote(xsd_check={p}); pi = XMLPitch(xsd_check={c}); pi.add_child(XMLStep('A', xsd_check=False))
for parent, ch in ((n, pi), (m, n)):
    if parent.xsd_check: parent.add_child(ch)
    else: parent._unordered_children.append(ch); ch._parent = parent
try:
    m.to_string(); got = False
except (XMLElementChildrenRequired, XSDAttributeRequiredException, ValueError) as ex:
    got = True
print('raised:', got, 'expected:', {p or c})
sys.exit(0 if got == {p or c} else 1)
'''
    name, cname = o['name'], o['cname']
    table = elem.element_table()
    tkey = table[name][1]
    value = elem.valid_value(tkey)
    mk = f"X.{cname}({value!r}, xsd_check=False)" if value != '' else f"X.{cname}(xsd_check=False)"
    return f'''import musicxml.xmlelement.xmlelement as X
bad = 0
e = {mk}
# a child that is still owned by a checked element (its back-pointer is set), and a foreign child
owner = X.XMLPitch(); st = owner.add_child(X.XMLStep('A')); owner.add_child(X.XMLOctave(4))
before = owner.to_string()
try:
    e.add_child(st); e.add_child(X.XMLWords('w', xsd_check=False));
    order = [c.name for c in e.get_children()]
    e.remove(st)
    print('children after add/add/remove:', [c.name for c in e.get_children()], 'order was', order)
    if order != ['step', 'words']: bad = 1
except Exception as ex:
    print('unchecked element raised', type(ex).__name__, ex); bad = 1
try:
    after = owner.to_string()
except Exception as ex:
    after = 'raises ' + type(ex).__name__
print('checked owner before/after:', before.strip().replace(chr(10), ''), '|', after.strip().replace(chr(10), ''))
if after != before: bad = 1
print({o['detail']!r})
sys.exit(bad)
'''


def run(tier='quick', seed=0):
    from .. import histcheck
    R = report.Run('C18', tier, seed, category='other')
    R.functions = ['XMLElement.add_child', 'XMLElement.remove', 'XMLElement.replace_child', 'XMLElement.get_children', 'XMLElement._final_checks',
                   'XMLElement._create_et_xml_element', 'XMLElement.to_string']
    R.assumptions += ['the matcher of the unchecked element is replaced by a tripwire object (every access recorded)',
                      'children: up to four declared child kinds plus three kinds that are not schema children of the element; back-pointer pre-states {None, owned by a checked element}',
                      'byte-identity with the checked twin for valid in-order input is BOUNDED (histcheck) and inherits C02']
    table = elem.element_table()
    tasks = [(n, cn, t) for n, (cn, t) in sorted(table.items())]
    ctx = mp.get_context('fork')
    all_obs = []
    from ..par import collect
    all_obs.extend(collect(task, tasks, 12, 600, lambda t, why: dict(oid=f'C18/worker/{t[0]}', status='undecided', detail=why, paths=0, name=t[0], cname=t[1], kind='worker')))
    all_obs.extend(gating_obligations())
    viol = sorted((o for o in all_obs if o['status'] == 'violated' and R.match_known(o['oid'], o.get('detail')) is None), key=lambda o: o['oid'])
    srcs = [(o['oid'], replay_source(o), str(o.get('detail'))) for o in viol[:report.REPLAY_CAP]]
    replayed = report.replay_many('C18', srcs, cap=len(srcs))
    for o in sorted(all_obs, key=lambda o: o['oid']):
        ob = report.Ob(o['oid'], o['status'], level='finite-complete', backend='enumeration', detail=o.get('detail'), paths=o.get('paths', 0))
        if o['status'] == 'violated':
            k = R.match_known(o['oid'], o.get('detail'))
            if o['oid'] in replayed:
                ob.replay, rc, out = replayed[o['oid']]
                if rc != 1:
                    ob.replay = None      # the generic replay scenario does not show it: report without an executable counterexample
            if k is not None:
                ob.status = 'known'
                ob.detail = k['what']
        R.add(ob)
    # bounded layer
    hs = histcheck.sweep(tier)
    import json
    khp = os.path.join(report.VERIF, 'known_histories.json')
    kh = json.load(open(khp)).get('C18', {}) if os.path.exists(khp) else {}
    from .mprop import replay_history_source
    for t in hs['types']:
        fails = [(h, d) for p, h, d in t['fails'] if p == 'C18']
        new = [(h, d) for h, d in fails if h not in set(kh.get(t['tkey'], []))]
        oid = f'C18/bounded/{t["tkey"]}'
        if new:
            h, d = sorted(new, key=lambda x: (len(x[0].split()), x[0]))[0]
            ob = report.Ob(oid, 'violated', level='bounded', backend='native-exhaustive', detail=f'{h}  ->  {d}', paths=t['counts'].get('C18', 0))
            ob.replay = report.write_replay('C18', oid, replay_history_source('C18', t['tkey'], t['name'], h, d), header=d)
            R.add(ob)
        else:
            R.add(report.Ob(oid, 'discharged', level='bounded', backend='native-exhaustive', paths=t['counts'].get('C18', 0)))
        if fails and not new:
            R.add(report.Ob(oid + '[known]', 'known', level='bounded', detail=f'{t["tkey"]}: {fails[0][0]} -> {fails[0][1][:120]} ({len(fails)} histories inside the committed extent)'))
    R.explanation = (f'{len(tasks)} element classes with a tripwire matcher x child kinds x back-pointer pre-states x forward; 8 mixed-tree gating cases; '
                     f'bounded layer: {sum(t["counts"].get("C18", 0) for t in hs["types"])} histories on unchecked elements.')
    return R.finish()
