"""Node lemmas of the parser (C08: own output, C09: any schema-valid text), on the real parser.parser code (instrumented).

Functions under contract: parser._et_xml_to_music_xml, parser._parse_node, parser.parse_musicxml; callees XMLElement.__init__,
__setattr__/_set_attributes (C04), the simple types (C05).
Assumed contracts of the built-ins used by the ladder (engine.CONVERT):
   str(int) / repr(float): a numeral t with float(t) == the value and, for ints, int(t) == the value        (NumeralStr)
   float(t) for a string t: succeeds iff t is a Python float literal (regex below), result VAL(t);  int(t): iff integer literal
   str.strip(): identity on strings without exterior whitespace (the proved domain); other strings are the known-finding class
C08/value/<element>/<tag>     v accepted by the element's type, text = str(v)  =>  _et_xml_to_music_xml returns e' with
                              e'.value_ == v (numerically; integer-typed content stays int)                  [all v of the tag]
C08/attr/<type>/<attr>/<tag>  same for every declared attribute through the setattr ladder
C09/value/<element>           every text t in Lex(type) offered in normalised form => accepted, e'.value_ renders as t (numerals: same value)
C09/ns-attr, C09/tail, C09/order   namespaced attribute keys as ElementTree delivers them; tail text; children order (for-all rule)
"""
import multiprocessing as mp
import os

import z3

from .. import engine as E
from .. import xsdspec, report, elem, lex, rx, values as V
from .c05 import class_name_for, install_stubs, _witness

VAL = z3.Function('py_float_of', z3.StringSort(), z3.RealSort())
VALI = z3.Function('py_int_of', z3.StringSort(), z3.IntSort())
PYFLOAT = None
PYINT = None
XML_NS = '{http://www.w3.org/XML/1998/namespace}'


def _res():
    global PYFLOAT, PYINT
    if PYFLOAT is None:
        PYINT = rx.xsd_regex(r'[ \t\n\r]*[+\-]?[0-9](_?[0-9])*[ \t\n\r]*')
        PYFLOAT = rx.xsd_regex(r'[ \t\n\r]*[+\-]?(([0-9](_?[0-9])*)?\.?([0-9](_?[0-9])*)?([eE][+\-]?[0-9]+)?|[nN][aA][nN]|[iI][nN][fF]([iI][nN][iI][tT][yY])?)[ \t\n\r]*')
    return PYFLOAT, PYINT


_BMP = None


def BMP():
    """texts restricted to the Basic Multilingual Plane: characters >= U+10000 are C05's known finding (name character classes)"""
    global _BMP
    if _BMP is None:
        _BMP = z3.Star(rx.charset_re([(0, 0xFFFF)]))
    return _BMP


class NumeralStr(E.SymStr):
    """the text str(v) of a symbolic number v"""

    def __init__(self, num):
        super().__init__(z3.String(E.fresh_name('numeral')))
        self.num = num
        # assumed contract of str(int) / repr(float): a non-empty numeral without whitespace
        pat = r'-?(0|[1-9][0-9]*)' if isinstance(num, E.SymInt) else r'-?[0-9]+\.[0-9]+([eE][+\-]?[0-9]+)?|-?[0-9]+[eE][+\-]?[0-9]+'
        E.ctx.solver.add(z3.InRe(self.e, rx.xsd_regex(pat)))

    def strip(self, *a):
        return self


def sym_strip(self, *a):
    """str.strip() on a symbolic string: identity on the proved domain (no exterior whitespace)"""
    ws = rx.charset_re([(0x9, 0xD), (0x1C, 0x20), (0x85, 0x85), (0xA0, 0xA0), (0x1680, 0x1680), (0x2000, 0x200A), (0x2028, 0x2029), (0x202F, 0x202F), (0x205F, 0x205F), (0x3000, 0x3000)])
    anyc = z3.Star(rx.charset_re([(0, rx.MAXCH)]))
    ext = z3.Union(z3.Concat(ws, anyc), z3.Concat(anyc, ws))
    r, _ = E.valid(z3.Not(z3.InRe(self.e, ext)))
    if r == 'valid':
        return self
    raise E.Unsupported('str.strip() of a string that may have exterior whitespace')


def install_convert():
    def to_float(x, *a):
        if isinstance(x, NumeralStr):
            return E.SymReal(z3.ToReal(x.num.e) if isinstance(x.num, E.SymInt) else x.num.e)
        if isinstance(x, E.SymStr):
            pf, pi = _res()
            if E.truth(E.SymBool(z3.InRe(x.e, pf))):
                return E.SymReal(VAL(x.e))
            raise ValueError('could not convert string to float')
        raise E.Unsupported('float() of non-string proxy')

    def to_int(x, *a):
        if isinstance(x, NumeralStr):
            if isinstance(x.num, E.SymInt):
                return E.SymInt(x.num.e)
            raise ValueError('invalid literal for int() with base 10')     # repr(float) always has '.', 'e', 'inf' or 'nan'
        if isinstance(x, E.SymStr):
            pf, pi = _res()
            if E.truth(E.SymBool(z3.InRe(x.e, pi))):
                return E.SymInt(VALI(x.e))
            raise ValueError('invalid literal for int() with base 10')
        raise E.Unsupported('int() of non-string proxy')

    def to_str(x):
        if isinstance(x, E.SymStr):
            return x
        if isinstance(x, E.SymNum):
            return NumeralStr(x)
        raise E.Unsupported('str() of proxy')
    E.CONVERT.update(float=to_float, int=to_int, str=to_str)
    E.SymStr.strip = sym_strip


class Node:
    def __init__(self, tag, text=None, attrib=None, children=(), tail=None):
        self.tag = tag
        self.text = text
        self.attrib = dict(attrib or {})
        self.tail = tail
        self._children = list(children)

    def __iter__(self):
        return iter(self._children)


def num_eq(a, v):
    """z3 formula: python value a (proxy or concrete) equals symbolic number term v numerically"""
    if isinstance(a, E.SymNum):
        return (z3.ToReal(a.e) if isinstance(a, E.SymInt) else a.e) == (z3.ToReal(v) if v.sort() == z3.IntSort() else v)
    if isinstance(a, (int, float)) and not isinstance(a, bool):
        return z3.RealVal(repr(a)) == (z3.ToReal(v) if v.sort() == z3.IntSort() else v)
    return z3.BoolVal(False)


def value_task(args):
    name, cname, tkey = args
    import musicxml.util.core as core
    import musicxml.xsd.xsdsimpletype as ST
    install_stubs(ST)
    install_convert()
    import musicxml.parser.parser as P
    install_stubs(ST)
    import musicxml.xmlelement.xmlelement as X
    obs = []
    st = xsdspec.element_simple_type(tkey)
    cls = getattr(X, cname)
    if not st:
        # no character content: whitespace-only text (indentation) must be accepted, children/attributes are other obligations
        ok, det = True, None
        try:
            e = P._et_xml_to_music_xml(Node(name, '\n      '))
            if e.value_ not in ('', None):
                ok, det = False, f'value {e.value_!r}'
        except Exception as ex:
            req = [q for q, _, r in elem.declared_attrs(tkey) if r] if tkey in xsdspec.ALL_CT else []
            ok, det = False, f'raises {type(ex).__name__}: {str(ex)[:80]}'
        obs.append(dict(oid=f'C09/value/{name}', props=['C09', 'C08'], status='discharged' if ok else 'violated', detail=det, paths=1, name=name, kind='empty', level='finite-complete'))
        return obs
    d = xsdspec.SIMPLE[st]
    from .c05 import NORMALISED_MODE
    # ---- C08: own output
    for tag0 in ('str', 'str-interior', 'int', 'float'):
        tag = 'str' if tag0 == 'str-interior' else tag0
        res = {'ok': True, 'detail': None, 'paths': 0, 'wit': None, 'accepted': 0}

        def harness():
            v, term = V.make(tag)
            NORMALISED_MODE[0] = (tag0 != 'str-interior')
            if tag0 == 'str':
                E.assume(z3.InRe(term, z3.Intersect(lex.COLLAPSED_RE, lex.NO_EXOTIC_RE)))
            if tag0 == 'str-interior':
                # interior whitespace (runs, tabs, line breaks) but no exterior whitespace: must survive the round trip verbatim
                nw = rx.charset_re(rx._neg([(0x20, 0x20), (0x9, 0xA), (0xD, 0xD)]))
                anyc = z3.Star(rx.charset_re([(0, 0xFFFF)]))
                E.assume(z3.InRe(term, z3.Intersect(z3.Complement(lex.COLLAPSED_RE), lex.NO_EXOTIC_RE, z3.Concat(nw, anyc, nw))))
                for ax in lex.collapse_axioms(term, ()):
                    E.ctx.solver.add(ax)
            try:
                cls(v)
            except (TypeError, ValueError):
                return 'not-accepted'
            if tag == 'float':
                E.assume(V.float_repr_is_decimal(term))     # exponent-form floats are C05's known finding
            res['accepted'] += 1
            text = E.str_(v)
            try:
                out = P._et_xml_to_music_xml(Node(name, text))
            except Exception as ex:
                if res['ok']:
                    m = E.model()
                    res.update(ok=False, detail=f'own output text of a {tag} value is rejected by the parser: {type(ex).__name__}', wit=V.py_literal(tag, V.concretize(tag, term, m)) if m else None)
                return 'raises'
            res['paths'] += 1
            got = out._value
            if tag == 'str':
                goal = (got.e == term) if isinstance(got, E.SymStr) else (term == z3.StringVal(got) if isinstance(got, str) else z3.BoolVal(False))
            else:
                goal = num_eq(got, term)
                if tag == 'int' and d.prim == 'integer' and not (isinstance(got, E.SymInt) and got.pytype is int):
                    goal = z3.BoolVal(False)
            r, mm = E.valid(goal)
            if r != 'valid' and res['ok']:
                res.update(ok=(None if r == 'unknown' else False), detail=f'{tag} value does not survive str() -> parser' if r == 'invalid' else 'solver unknown',
                           wit=V.py_literal(tag, V.concretize(tag, term, mm)) if mm is not None else None)
            return 'ok'
        rs = E.explore(harness, maxpaths=400, timeout=60)
        uns = [r.detail for r in rs if r.status == 'unsupported']
        status = 'undecided' if (uns or res['ok'] is None) else ('discharged' if res['ok'] else 'violated')
        if res['accepted'] == 0 and not uns:
            continue        # the type accepts no value of this tag: nothing to round-trip
        obs.append(dict(oid=f'C08/value/{name}/{tag0}', props=['C08'], status=status, detail=(uns[0] if uns else res['detail']), paths=res['paths'], name=name, cname=cname,
                        kind='value', tag=tag, witness=res['wit'], level='proved'))
    # ---- C09: any text of the lexical space, normalised form, no exterior whitespace
    res = {'ok': True, 'detail': None, 'paths': 0, 'wit': None}

    def harness9():
        t = z3.String('t')
        text = E.SymStr(t)
        NORMALISED_MODE[0] = True
        E.assume(z3.InRe(t, z3.Intersect(lex.COLLAPSED_RE, lex.NO_EXOTIC_RE, BMP())))
        E.assume(_lex_text(d, t))
        try:
            out = P._et_xml_to_music_xml(Node(name, text))
        except Exception as ex:
            if res['ok']:
                m = E.model()
                res.update(ok=False, detail=f'schema-valid text rejected: {type(ex).__name__}', wit=repr(V._unescape(m[t].as_string())) if m is not None and m[t] is not None else None)
            return 'raises'
        res['paths'] += 1
        got = out._value
        if isinstance(got, E.SymStr):
            goal = got.e == t
        elif isinstance(got, str):
            goal = t == z3.StringVal(got)
        elif isinstance(got, E.SymReal):
            goal = got.e == VAL(t)
        elif isinstance(got, E.SymInt):
            goal = z3.Or(got.e == VALI(t), z3.ToReal(got.e) == VAL(t))
        else:
            goal = z3.BoolVal(False)
        r, mm = E.valid(goal)
        if r != 'valid' and res['ok']:
            res.update(ok=(None if r == 'unknown' else False), detail='parsed value does not render as the text' if r == 'invalid' else 'solver unknown',
                       wit=repr(V._unescape(mm[t].as_string())) if mm is not None and mm[t] is not None else None)
        return 'ok'
    rs = E.explore(harness9, maxpaths=400, timeout=60)
    uns = [r.detail for r in rs if r.status == 'unsupported']
    status = 'undecided' if (uns or res['ok'] is None) else ('discharged' if res['ok'] else 'violated')
    obs.append(dict(oid=f'C09/value/{name}', props=['C09'], status=status, detail=(uns[0] if uns else res['detail']), paths=res['paths'], name=name, cname=cname,
                    kind='value9', witness=res['wit'], level='proved'))
    return obs


def _lex_text(d, t):
    """Lex(d) on a normalised text, numeric facets through VAL"""
    if d.prim == 'union':
        return z3.Or([_lex_text(m, t) for m in d.members])
    if d.prim in ('decimal', 'integer'):
        cs = [z3.InRe(t, rx.decimal_re() if d.prim == 'decimal' else rx.integer_re())]
        from fractions import Fraction
        x = VAL(t)
        if d.prim == 'integer':
            cs.append(z3.ToReal(VALI(t)) == VAL(t))
        for f, op in ((d.min_incl, lambda a, b: a >= b), (d.max_incl, lambda a, b: a <= b), (d.min_excl, lambda a, b: a > b), (d.max_excl, lambda a, b: a < b)):
            if f is not None:
                cs.append(op(x, z3.RealVal(str(Fraction(f)))))
        return z3.And(cs)
    return lex.lex_str(d, t)


def attr_task(args):
    tkey, name, cname = args
    import musicxml.xsd.xsdsimpletype as ST
    install_stubs(ST)
    install_convert()
    import musicxml.parser.parser as P
    install_stubs(ST)
    import musicxml.xmlelement.xmlelement as X
    from .c05 import NORMALISED_MODE
    cls = getattr(X, cname)
    value = elem.valid_value(tkey)
    obs = []
    for qn, tname, req in elem.declared_attrs(tkey):
        if tname not in xsdspec.SIMPLE:
            continue
        d = xsdspec.SIMPLE[tname]
        key9 = (XML_NS + qn[4:]) if qn.startswith('xml:') else qn
        res = {'ok': True, 'detail': None, 'paths': 0, 'wit': None}

        def harness():
            t = z3.String('t')
            text = E.SymStr(t)
            NORMALISED_MODE[0] = True
            E.assume(z3.InRe(t, z3.Intersect(lex.COLLAPSED_RE, lex.NO_EXOTIC_RE, BMP())))
            E.assume(_lex_text(d, t))
            try:
                out = P._et_xml_to_music_xml(Node(name, str(value) if value != '' else None, {key9: text}))
            except Exception as ex:
                if res['ok']:
                    m = E.model()
                    res.update(ok=False, detail=f'schema-valid attribute {qn} rejected: {type(ex).__name__}: {str(ex)[:60]}',
                               wit=repr(V._unescape(m[t].as_string())) if m is not None and m[t] is not None else None)
                return 'raises'
            res['paths'] += 1
            got = out._attributes.get(qn)
            if isinstance(got, E.SymStr):
                goal = got.e == t
            elif isinstance(got, E.SymReal):
                goal = got.e == VAL(t)
            elif isinstance(got, E.SymInt):
                goal = z3.Or(got.e == VALI(t), z3.ToReal(got.e) == VAL(t))
            else:
                goal = z3.BoolVal(False)
            r, mm = E.valid(goal)
            if r != 'valid' and res['ok']:
                res.update(ok=(None if r == 'unknown' else False), detail=f'attribute {qn}: stored {type(got).__name__} does not render as the text (keys {sorted(map(str, out._attributes))})' if r == 'invalid' else 'solver unknown',
                           wit=repr(V._unescape(mm[t].as_string())) if mm is not None and mm[t] is not None else None)
            return 'ok'
        rs = E.explore(harness, maxpaths=300, timeout=40)
        uns = [r.detail for r in rs if r.status == 'unsupported']
        status = 'undecided' if (uns or res['ok'] is None) else ('discharged' if res['ok'] else 'violated')
        obs.append(dict(oid=f'C09/attr/{tkey}/{qn}', props=['C09'], status=status, detail=(uns[0] if uns else res['detail']), paths=res['paths'], name=name, cname=cname,
                        kind='attr', qn=qn, witness=res['wit'], level='proved'))
        # ---- C08: own output -- a value the element accepted for this attribute, serialised with str(), parsed back
        for tag in ('str', 'int', 'float'):
            res8 = {'ok': True, 'detail': None, 'paths': 0, 'wit': None, 'accepted': 0}

            def harness8():
                v, term = V.make(tag)
                NORMALISED_MODE[0] = True
                if tag == 'str':
                    E.assume(z3.InRe(term, z3.Intersect(lex.COLLAPSED_RE, lex.NO_EXOTIC_RE, BMP())))
                e = cls(value) if value != '' else cls()
                try:
                    e._set_attributes({qn: v})
                except Exception:
                    return 'not-accepted'
                keys = [k for k in e._attributes]
                if len(keys) != 1:
                    return 'not-accepted'
                if tag == 'float':
                    E.assume(V.float_repr_is_decimal(term))
                res8['accepted'] += 1
                text = E.str_(v)
                try:
                    out = P._et_xml_to_music_xml(Node(name, str(value) if value != '' else None, {keys[0]: text}))
                except Exception as ex:
                    if res8['ok']:
                        m = E.model()
                        res8.update(ok=False, detail=f'own output attribute {keys[0]} ({tag}) rejected by the parser: {type(ex).__name__}', wit=V.py_literal(tag, V.concretize(tag, term, m)) if m else None)
                    return 'raises'
                res8['paths'] += 1
                got = out._attributes.get(keys[0])
                if tag == 'str':
                    goal = (got.e == term) if isinstance(got, E.SymStr) else (term == z3.StringVal(got) if isinstance(got, str) else _str_num_goal(got, term))
                else:
                    goal = num_eq(got, term)
                    if isinstance(got, E.SymStr):
                        goal = z3.BoolVal(True) if isinstance(got, NumeralStr) and got.num is v else goal
                r, mm = E.valid(goal)
                if r != 'valid' and res8['ok']:
                    res8.update(ok=(None if r == 'unknown' else False), detail=f'attribute {keys[0]}: {tag} value does not survive str() -> parser (stored {type(got).__name__})' if r == 'invalid' else 'solver unknown',
                                wit=V.py_literal(tag, V.concretize(tag, term, mm)) if mm is not None else None)
                return 'ok'
            rs = E.explore(harness8, maxpaths=300, timeout=40)
            uns = [r.detail for r in rs if r.status == 'unsupported']
            if res8['accepted'] == 0 and not uns:
                continue
            status = 'undecided' if (uns or res8['ok'] is None) else ('discharged' if res8['ok'] else 'violated')
            obs.append(dict(oid=f'C08/attr/{tkey}/{qn}/{tag}', props=['C08'], status=status, detail=(uns[0] if uns else res8['detail']), paths=res8['paths'], name=name, cname=cname,
                            kind='attr8', qn=qn, tag=tag, witness=res8['wit'], level='proved'))
    # ---- conservation: an attribute text that is NOT in the lexical space is reported (raise), never dropped or altered silently
    for qn, tname, req in elem.declared_attrs(tkey):
        if tname not in xsdspec.SIMPLE or qn.startswith(('xml:', 'xlink:')):
            continue
        d = xsdspec.SIMPLE[tname]
        sol = z3.Solver()
        sol.set('timeout', 5000)
        t = z3.String('t')
        sol.add(z3.InRe(t, z3.Intersect(lex.COLLAPSED_RE, lex.NO_EXOTIC_RE, BMP())), z3.Length(t) >= 1, z3.Length(t) <= 6, z3.Not(_lex_text(d, t)),
                z3.Not(z3.InRe(t, _res()[0])))
        if sol.check() != z3.sat:
            continue          # every short text is valid for this type (xs:string, xs:token)
        bad_text = V._unescape(sol.model()[t].as_string())
        key = qn
        try:
            out = P._et_xml_to_music_xml(Node(name, str(value) if value != '' else None, {key: bad_text}))
            stored = out._attributes.get(qn)
            ok = stored == bad_text
            det = None if ok else f'invalid attribute text {qn}={bad_text!r} is neither rejected nor kept: attributes {dict(out._attributes)!r}'
        except Exception as ex:
            ok, det = True, None
        obs.append(dict(oid=f'C09/conservation/invalid-attr/{tkey}/{qn}', props=['C09'], status='discharged' if ok else 'violated', detail=det, paths=1, name=name, cname=cname,
                        kind='badattr', qn=qn, witness=repr(bad_text), level='finite-complete'))
    return obs


def _str_num_goal(got, term):
    """a string attribute value that looks numeric comes back as a number: same text iff the canonical numeral equals the string"""
    return z3.BoolVal(False)


def structural_obligations():
    import musicxml.parser.parser as P
    import musicxml.xmlelement.xmlelement as X
    out = []
    # order of children (for-all rule over the node's children): three children in document order
    n = Node('pitch', '\n ', {}, [Node('step', 'A'), Node('alter', '1'), Node('octave', '4')])
    try:
        e = P._parse_node(n)
        ok = [c.name for c in e.get_children()] == ['step', 'alter', 'octave'] and [c.value_ for c in e.get_children()] == ['A', 1, 4]
        det = None if ok else f'children {[(c.name, c.value_) for c in e.get_children()]}'
    except Exception as ex:
        ok, det = False, f'raises {type(ex).__name__}'
    out.append(dict(oid='C09/order/children-in-document-order', props=['C09', 'C08'], status='discharged' if ok else 'violated', detail=det, paths=1, kind='order', level='finite-complete'))
    # conservation: every attribute key is offered to the element (stored or raises); tail text is not dropped silently
    n = Node('pitch', None, {}, [Node('step', 'A', tail='  stray text  '), Node('octave', '4')])
    try:
        e = P._parse_node(n)
        s = e.to_string()
        ok = 'stray text' in s
        det = None if ok else 'text after a child element (tail) is dropped silently: the parser neither keeps it nor raises'
    except Exception as ex:
        ok, det = True, None
    out.append(dict(oid='C09/conservation/tail-text', props=['C09'], status='discharged' if ok else 'violated', detail=det, paths=1, kind='tail', level='finite-complete'))
    n = Node('words', '  two  spaces  ', {})
    try:
        e = P._et_xml_to_music_xml(n)
        ok = e.value_ == '  two  spaces  '
        det = None if ok else f'text of a whitespace-preserving type is altered silently: {e.value_!r}'
    except Exception as ex:
        ok, det = True, None
    out.append(dict(oid='C09/conservation/exterior-whitespace', props=['C09', 'C08'], status='discharged' if ok else 'violated', detail=det, paths=1, kind='ws', level='finite-complete'))
    return out


REPLAY_VALUE = '''import xml.etree.ElementTree as ET, tempfile
import musicxml.xmlelement.xmlelement as X
from musicxml.parser.parser import _et_xml_to_music_xml, _parse_node
v = {witness}
e = X.{cname}(v, xsd_check=False)
text = ET.tostring(e.et_xml_element, encoding='unicode')
print('serialised:', text.strip())
try:
    back = _et_xml_to_music_xml(ET.fromstring(text))
    print('parsed value:', repr(back.value_), 'original:', repr(v))
    same = (back.value_ == v) and ({intcheck})
except Exception as ex:
    print('parser raises', type(ex).__name__, ex); same = False
print({detail!r})
sys.exit(0 if same else 1)
'''

REPLAY_TEXT = '''import xml.etree.ElementTree as ET
from musicxml.parser.parser import _et_xml_to_music_xml
n = ET.Element({name!r}{attrs}); n.text = {text}
try:
    e = _et_xml_to_music_xml(n)
    print('value', repr(e.value_), 'attributes', e.attributes)
    ok = {okexpr}
except Exception as ex:
    print('parser raises', type(ex).__name__, ex); ok = False
print({detail!r})
sys.exit(0 if ok else 1)
'''


def replay_source(o):
    k = o.get('kind')
    if k == 'value' and o.get('witness'):
        return REPLAY_VALUE.format(witness=o['witness'], cname=o['cname'], detail=o.get('detail'), intcheck=("type(back.value_) is int" if o['tag'] == 'int' and 'integer' in str(o.get('detail')) else 'True'))
    if k == 'value9' and o.get('witness'):
        return REPLAY_TEXT.format(name=o['name'], attrs='', text=o['witness'], okexpr=f"str(e.value_) == {o['witness']} or (isinstance(e.value_, (int, float)) and float(e.value_) == float({o['witness']}))", detail=o.get('detail'))
    if k == 'attr' and o.get('witness'):
        qn = o['qn']
        key = (XML_NS + qn[4:]) if qn.startswith('xml:') else qn
        tk = next(iter(xsdspec.element_types()[o['name']]))
        val = elem.valid_value(tk)
        return REPLAY_TEXT.format(name=o['name'], attrs=f", {{{key!r}: {o['witness']}}}", text=repr(str(val)) if val != '' else 'None',
                                  okexpr=f"{qn!r} in e.attributes and (str(e.attributes[{qn!r}]) == {o['witness']} or (isinstance(e.attributes[{qn!r}], (int, float)) and float(e.attributes[{qn!r}]) == float({o['witness']})))",
                                  detail=o.get('detail'))
    if k == 'attr8' and o.get('witness'):
        tk = next(iter(xsdspec.element_types()[o['name']]))
        val = elem.valid_value(tk)
        mk = f"X.{o['cname']}({val!r}, xsd_check=False)" if val != '' else f"X.{o['cname']}(xsd_check=False)"
        return f'''import xml.etree.ElementTree as ET
import musicxml.xmlelement.xmlelement as X
from musicxml.parser.parser import _et_xml_to_music_xml
e = {mk}
e._set_attributes({{{o['qn']!r}: {o['witness']}}})
text = ET.tostring(e.et_xml_element, encoding='unicode'); print(text.strip())
try:
    back = _et_xml_to_music_xml(ET.fromstring(text))
    t2 = ET.tostring(back.et_xml_element, encoding='unicode'); print(t2.strip())
    ok = dict(ET.fromstring(t2).attrib) == dict(ET.fromstring(text).attrib) or all(float(a) == float(b) for a, b in zip(ET.fromstring(t2).attrib.values(), ET.fromstring(text).attrib.values()))
except Exception as ex:
    print('parser raises', type(ex).__name__, ex); ok = False
print({o.get('detail')!r})
sys.exit(0 if ok else 1)
'''
    if k == 'badattr':
        tk = next(iter(xsdspec.element_types()[o['name']]))
        val = elem.valid_value(tk)
        return REPLAY_TEXT.format(name=o['name'], attrs=f", {{{o['qn']!r}: {o['witness']}}}", text=repr(str(val)) if val != '' else 'None',
                                  okexpr=f"e.attributes.get({o['qn']!r}) == {o['witness']}", detail=o.get('detail')).replace("print('parser raises', type(ex).__name__, ex); ok = False", "print('parser raises', type(ex).__name__, '(fine: reported)'); ok = True")
    if k == 'tail':
        return '''import xml.etree.ElementTree as ET
from musicxml.parser.parser import _parse_node
e = _parse_node(ET.fromstring('<pitch><step>A</step>  stray text  <octave>4</octave></pitch>'))
s = e.to_string(); print(s)
sys.exit(0 if 'stray text' in s else 1)
'''
    if k == 'ws':
        return '''import xml.etree.ElementTree as ET
from musicxml.parser.parser import _parse_node
e = _parse_node(ET.fromstring('<words>  two  spaces  </words>'))
print(repr(e.value_))
sys.exit(0 if e.value_ == '  two  spaces  ' else 1)
'''
    return None


def run_for(prop, tier='quick', seed=0):
    R = report.Run(prop, tier, seed, category='other')
    R.functions = ['parser._et_xml_to_music_xml', 'parser._parse_node', 'parser.parse_musicxml', 'XMLElement.__init__ / __setattr__ / _set_attributes (callees)',
                   'XSDSimpleType constructors (callees, real code)']
    R.assumptions += ['assumed contracts of str(int), repr(float), float(str), int(str) (NumeralStr / py_float_of / py_int_of uninterpreted with literal regexes); str.strip() is the identity on strings without exterior whitespace',
                      'proved domain of texts: whitespace-collapsed, no exterior whitespace, no non-XSD Unicode whitespace; exterior whitespace and tail text are separate (finite) obligations',
                      'whole-document claim = node lemmas + children visited in document order (for-all rule over the loop in _parse_node) + C02 (in-order acceptance) + C16 (ElementTree contract); not re-proved here',
                      'floats in exponent form are excluded from the own-output lemma (C05 known finding)', 'texts are restricted to the Basic Multilingual Plane (characters >= U+10000 in names are C05 known findings)']
    import musicxml.util.core  # instrumented modules load lazily; order matters for the stubs
    import musicxml.xmlelement.xmlelement
    from .. import instr
    if instr.roundtrip_report():
        R.checker_errors.append(f'instrumentation round-trip failed for {instr.roundtrip_report()}')
    table = elem.element_table()
    vtasks = [(n, cn, t) for n, (cn, t) in sorted(table.items())]
    rep = {}
    for n, (cn, t) in sorted(table.items()):
        if t in xsdspec.ALL_CT and t not in rep:
            rep[t] = (t, n, cn)
    atasks = sorted(rep.values())
    ctx = mp.get_context('fork')
    all_obs = []
    from ..par import collect
    all_obs.extend(collect(value_task, vtasks, 6, 900, lambda t, why: dict(oid=f'{prop}/worker/value/{t[0]}', props=['C08', 'C09'], status='undecided', detail=why, paths=0, name=t[0], cname=t[1], kind='worker', level='proved')))
    all_obs.extend(collect(attr_task, atasks, 1, 900, lambda t, why: dict(oid=f'{prop}/worker/attr/{t[0]}', props=['C08', 'C09'], status='undecided', detail=why, paths=0, name=t[1], cname=t[2], kind='worker', level='proved')))
    all_obs.extend(structural_obligations())
    mine = [o for o in all_obs if prop in o['props']]
    viol = sorted((o for o in mine if o['status'] == 'violated'), key=lambda o: o['oid'])
    new = [o for o in viol if R.match_known(o['oid'], o.get('detail')) is None]
    srcs = []
    for o in new[:report.REPLAY_CAP] + [o for o in viol if o not in new][:12]:
        src = replay_source(o)
        if src:
            srcs.append((o['oid'], src, str(o.get('detail'))))
    replayed = report.replay_many(prop, srcs, cap=len(srcs))
    for o in sorted(mine, key=lambda o: o['oid']):
        ob = report.Ob(o['oid'], o['status'], level=o.get('level', 'proved'), backend='z3' if o.get('level') == 'proved' else 'enumeration', detail=o.get('detail'), paths=o.get('paths', 0))
        if o['status'] == 'violated':
            k = R.match_known(o['oid'], o.get('detail'))
            if o['oid'] in replayed:
                ob.replay, rc, out = replayed[o['oid']]
                if rc != 1:
                    ob.status = 'crash' if o.get('level') == 'proved' and k is None else ob.status
                    if ob.status == 'crash':
                        ob.detail = f'counterexample does not replay natively (rc={rc}): {o.get("detail")} :: {out[-200:]}'
            if ob.status == 'violated' and k is not None:
                ob.status = 'known'
                ob.detail = k['what']
        R.add(ob)
    R.explanation = (f'{prop}: {len(vtasks)} element classes (value lemma per value tag / per lexical space, symbolic), {len(atasks)} complex types x declared attributes (symbolic texts through the setattr ladder), '
                     'children order, tail text and exterior whitespace as finite obligations.')
    return R.finish()
