"""C15 -- shortcut syntax is equivalent to the explicit API.

Functions under contract: XMLElement.__setattr__, __getattr__, _convert_attribute_to_child, find_child.
Dispatch contract, per element class and per possible child name a (from the vendored schema), with the explicit API
(add_child / replace_child / remove / the child's value_ setter / _set_attributes) replaced by recording stubs:
   e.xml_a = <instance of a's class>   ->  replace_child(found, inst) if a child of that class exists else add_child(inst)
   e.xml_a = None                      ->  remove(found) if it exists, else nothing
   e.xml_a = v (anything else)         ->  found.value_ = v if it exists, else add_child(Class_a(v))
   e.xml_<not a possible child> = ...  ->  AttributeError, no call
   e.<declared attribute spelling> = v ->  _set_attributes({key: v});   unknown name -> AttributeError
   e.xml_a                             ->  the first child named a of the serialised order, None if allowed but absent,
                                           AttributeError if a is not a possible child
   e.<declared attribute>              ->  stored value, None if unset;  AttributeError for unknown names
The finite quantifiers (441 classes x their children / attributes) are enumerated completely; an exception raised by the
explicit call propagates unchanged (checked with raising stubs).
"""
import multiprocessing as mp
import os

from .. import xsdspec, report, elem
from .c04 import spellings


def task(args):
    name, cname, tkey = args
    import musicxml.xmlelement.xmlelement as X
    table = elem.element_table()
    cls = getattr(X, cname, None)
    obs = []
    if cls is None:
        return [dict(oid=f'C15/class/{name}', status='undecided', detail=f'{cname} missing')]
    value = elem.valid_value(tkey)
    kids = xsdspec.alphabet(xsdspec.MODELS[tkey]) if tkey in xsdspec.MODELS else []

    def fresh():
        return cls(value, xsd_check=False) if value != '' else cls(xsd_check=False)

    def mkchild(a):
        ccn, ctk = table[a]
        v = elem.valid_value(ctk)
        c = getattr(X, ccn)
        return c(v, xsd_check=False) if v != '' else c(xsd_check=False)

    class Boom(Exception):
        pass

    def instrumented(e, raising=None):
        calls = []

        def mk(nm):
            def stub(*a, **k):
                calls.append((nm, a, k))
                if raising == nm:
                    raise Boom()
                return a[-1] if a else None
            return stub
        for nm in ('add_child', 'replace_child', 'remove', '_set_attributes'):
            object.__setattr__(e, nm, mk(nm))
        return calls

    fails = []
    n = 0
    for a in kids:
        key = 'xml_' + a.replace('-', '_')
        ccls = getattr(X, table[a][0])
        for found in (False, True):
            # -- instance
            e = fresh()
            old = mkchild(a)
            if found:
                e._unordered_children.append(old); old._parent = e
                other = mkchild(a)
                e._unordered_children.append(other); other._parent = e
            calls = instrumented(e)
            inst = mkchild(a)
            n += 1
            try:
                setattr(e, key, inst)
                want = [('replace_child', (old, inst), {})] if found else [('add_child', (inst,), {})]
                if calls != want:
                    fails.append(f'{key} = <{table[a][0]}> (found={found}): calls {[(c[0], len(c[1])) for c in calls]}, expected {[w[0] for w in want]}')
            except Exception as ex:
                fails.append(f'{key} = <{table[a][0]}> (found={found}): raises {type(ex).__name__}')
            # -- None
            e = fresh()
            old = mkchild(a)
            if found:
                e._unordered_children.append(old); old._parent = e
            calls = instrumented(e)
            n += 1
            try:
                setattr(e, key, None)
                want = [('remove', (old,), {})] if found else []
                if calls != want:
                    fails.append(f'{key} = None (found={found}): calls {[(c[0]) for c in calls]}, expected {[w[0] for w in want]}')
            except Exception as ex:
                fails.append(f'{key} = None (found={found}): raises {type(ex).__name__}')
            # -- plain value: the schema-valid sample value, falsy values, the same number under another type, a bool; the expected
            #    outcome (stored value or exception type) is what the explicit API does on a twin
            for cv in plain_values(X, table, a):
                twin = mkchild(a)
                try:
                    twin.value_ = cv
                    exp = None
                except Exception as ex:
                    exp = type(ex)
                e = fresh()
                old = mkchild(a)
                before = old.value_
                if found:
                    e._unordered_children.append(old); old._parent = e
                else:
                    try:
                        ccls(cv, xsd_check=False)
                        exp = None
                    except Exception as ex:
                        exp = type(ex)
                calls = instrumented(e)
                n += 1
                try:
                    setattr(e, key, cv)
                    got = None
                except Exception as ex:
                    got = type(ex)
                if got is not exp:
                    fails.append(f'{key} = {cv!r} (found={found}): {"raises " + got.__name__ if got else "accepted"}, the explicit API {"raises " + exp.__name__ if exp else "accepts"}')
                elif found:
                    if got is None and (calls or old.value_ != cv or type(old.value_) is not type(cv)):
                        fails.append(f'{key} = {cv!r} (found): calls {[c[0] for c in calls]}, child value {old.value_!r}')
                    if got is not None and (calls or old.value_ is not before):
                        fails.append(f'{key} = {cv!r} (found, refused): calls {[c[0] for c in calls]}, child value {old.value_!r}')
                elif got is None:
                    ok = (len(calls) == 1 and calls[0][0] == 'add_child' and type(calls[0][1][0]) is ccls and calls[0][1][0].value_ == cv
                          and type(calls[0][1][0].value_) is type(cv))
                    if not ok:
                        fails.append(f'{key} = {cv!r} (not found): calls {[c[0] for c in calls]}')
                elif calls:
                    fails.append(f'{key} = {cv!r} (not found, refused): calls {[c[0] for c in calls]}')
            # -- read
            e = fresh()
            if found:
                first = mkchild(a); second = mkchild(a)
                for c in (first, second):
                    e._unordered_children.append(c); c._parent = e
            n += 1
            try:
                got = getattr(e, key)
                if (found and got is not first) or (not found and got is not None):
                    fails.append(f'read {key} (found={found}): {got!r}')
            except Exception as ex:
                fails.append(f'read {key} (found={found}): raises {type(ex).__name__}')
        # -- errors of the explicit call propagate
        for raising, val in (('add_child', mkchild(a)),):
            e = fresh()
            calls = instrumented(e, raising)
            n += 1
            try:
                setattr(e, key, val)
                fails.append(f'{key}: exception of {raising} swallowed')
            except Boom:
                pass
            except Exception as ex:
                fails.append(f'{key}: exception of {raising} turned into {type(ex).__name__}')
    # not a possible child
    e = fresh()
    calls = instrumented(e)
    n += 1
    bogus = 'xml_zz_not_a_child'
    try:
        setattr(e, bogus, None)
        fails.append(f'{bogus} = None accepted')
    except AttributeError:
        if calls:
            fails.append(f'{bogus}: explicit calls made {calls}')
    except Exception as ex:
        fails.append(f'{bogus}: raises {type(ex).__name__}')
    try:
        getattr(fresh(), bogus)
        fails.append(f'read {bogus} returned a value')
    except AttributeError:
        pass
    except Exception as ex:
        fails.append(f'read {bogus}: raises {type(ex).__name__}')
    obs.append(dict(oid=f'C15/children/{name}', status='discharged' if not fails else 'violated', detail='; '.join(fails[:3]) or None, paths=n, name=name, cname=cname,
                    kind='children'))
    # ---- attributes
    fails = []
    n = 0
    attrs = elem.declared_attrs(tkey) if tkey in xsdspec.ALL_CT else []
    for qn, tname, req in attrs:
        for key in spellings(qn):
            e = fresh()
            calls = instrumented(e)
            v = object()
            n += 1
            try:
                setattr(e, key, v)
                if calls != [('_set_attributes', ({key: v},), {})]:
                    fails.append(f'{key} = v: calls {[c[0] for c in calls]}')
            except Exception as ex:
                fails.append(f'{key} = v: raises {type(ex).__name__}: {str(ex)[:60]}')
            e = fresh()
            n += 1
            try:
                if getattr(e, key.replace('-', '_')) is not None:
                    fails.append(f'read unset {key}: not None')
                e._attributes = {qn: 'stored'}
                if getattr(e, key.replace('-', '_')) != 'stored':
                    fails.append(f'read {key}: {getattr(e, key.replace("-", "_"))!r}')
            except Exception as ex:
                fails.append(f'read {key}: raises {type(ex).__name__}: {str(ex)[:60]}')
    e = fresh()
    n += 1
    try:
        getattr(e, 'zz_not_an_attribute')
        fails.append('read of an unknown name returned a value')
    except AttributeError:
        pass
    except Exception as ex:
        fails.append(f'read of an unknown name raises {type(ex).__name__}')
    obs.append(dict(oid=f'C15/attributes/{name}', status='discharged' if not fails else 'violated', detail='; '.join(fails[:3]) or None, paths=n, name=name, cname=cname,
                    kind='attributes'))
    # ---- attribute histories: dot assignment == update of the attribute dictionary, position included (the serialised order)
    seq = attr_sequence(cls, tkey)
    if seq:
        import musicxml.xsd.xsdattribute as AT
        real_call = AT.XSDAttribute.__call__
        AT.XSDAttribute.__call__ = lambda self, v: None        # callee contract: the values are accepted
        fails = []
        try:
            e1, e2 = fresh(), fresh()
            for i, (k, v) in enumerate(seq):
                setattr(e1, k.replace('-', '_'), v)
                if v is None:
                    e2.attributes.pop(k, None)
                else:
                    e2.attributes[k] = v
                if list(e1.attributes.items()) != list(e2.attributes.items()):
                    fails.append(f'after {seq[:i + 1]}: dot assignment gives {list(e1.attributes.items())}, dictionary update gives {list(e2.attributes.items())}')
                    break
            if not fails:
                a, b = e1.to_string(), e2.to_string()
                if a != b:
                    fails.append(f'after {seq}: serialisations differ: {a!r} vs {b!r}')
        except Exception as ex:
            fails.append(f'attribute history {seq}: raises {type(ex).__name__}: {str(ex)[:80]}')
        finally:
            AT.XSDAttribute.__call__ = real_call
        obs.append(dict(oid=f'C15/attribute-history/{name}', status='discharged' if not fails else 'violated', detail='; '.join(fails[:1]) or None, paths=len(seq),
                        name=name, cname=cname, kind='attrseq', seq=seq))
    return obs


def attr_sequence(cls, tkey):
    """set A, set B, (set C,) set A again, remove B, set B again, set A a third time -- over the first declared attributes the library knows"""
    if tkey not in xsdspec.ALL_CT:
        return []
    try:
        lib = [a.name for a in cls.TYPE.get_xsd_attributes()]
    except Exception:
        return []
    # attribute names that collide with the class's own properties ('name', ...) cannot be dot-assigned at all: that is the C04 finding, not a case here
    ks = [qn for qn, _, _ in elem.declared_attrs(tkey) if qn in lib and qn.replace('-', '_').isidentifier() and qn.replace('-', '_') not in cls._PROPERTIES][:3]
    if len(ks) < 2:
        return []
    a, b = ks[0], ks[1]
    seq = [(a, 'a1'), (b, 'b1')] + ([(ks[2], 'c1')] if len(ks) > 2 else []) + [(a, 'a2'), (b, None), (b, 'b2'), (a, 'a3')]
    return seq


def plain_values(X, table, a):
    ccn, ctk = table[a]
    cv = elem.valid_value(ctk)
    cand = ([cv] if cv != '' else []) + [0, 0.0, '', True]
    if isinstance(cv, int) and not isinstance(cv, bool):
        cand.append(float(cv))
    if isinstance(cv, float) and cv == int(cv):
        cand.append(int(cv))
    out = []
    for f in cand:
        if not any(f == x and type(f) is type(x) for x in out):
            out.append(f)
    return out


def replay_source(o):
    name, cname = o['name'], o['cname']
    table = elem.element_table()
    tkey = table[name][1]
    value = elem.valid_value(tkey)
    mk = f"X.{cname}({value!r}, xsd_check=False)" if value != '' else f"X.{cname}(xsd_check=False)"
    if o.get('kind') == 'attrseq':
        return f'''import musicxml.xmlelement.xmlelement as X, musicxml.xsd.xsdattribute as AT
AT.XSDAttribute.__call__ = lambda self, v: None   # callee contract: the values are accepted
e1 = {mk}; e2 = {mk}
for k, v in {[tuple(x) for x in o['seq']]!r}:
    setattr(e1, k.replace('-', '_'), v)
    if v is None: e2.attributes.pop(k, None)
    else: e2.attributes[k] = v
print('dot assignment   :', e1.to_string().strip())
print('dictionary update:', e2.to_string().strip())
print({o['detail']!r})
sys.exit(0 if e1.to_string() == e2.to_string() and list(e1.attributes.items()) == list(e2.attributes.items()) else 1)
'''
    kids = xsdspec.alphabet(xsdspec.MODELS[tkey]) if tkey in xsdspec.MODELS else []
    mkk = {}
    for a in kids:
        ccn, ctk = table[a]
        v = elem.valid_value(ctk)
        mkk[a] = f"X.{ccn}({v!r}, xsd_check=False)" if v != '' else f"X.{ccn}(xsd_check=False)"
    import musicxml.xmlelement.xmlelement as X_
    vals = {a: plain_values(X_, table, a) for a in kids}
    return f'''import sys
import musicxml.xmlelement.xmlelement as X
bad = 0
kids = {mkk!r}
vals = {vals!r}
for a, src in kids.items():
    key = 'xml_' + a.replace('-', '_')
    # shortcut vs explicit API on two identical elements holding three children of the same kind
    def build():
        e = {mk}
        cs = [eval(src) for _ in range(3)]
        for c in cs: e.add_child(c)
        return e, cs
    e1, c1 = build(); e2, c2 = build()
    n1 = eval(src); n2 = eval(src)
    try:
        setattr(e1, key, n1); r1 = [id(c) == id(n1) for c in e1.get_children()]
    except Exception as ex: r1 = type(ex).__name__
    try:
        e2.replace_child(c2[0], n2); r2 = [id(c) == id(n2) for c in e2.get_children()]
    except Exception as ex: r2 = type(ex).__name__
    if r1 != r2: print(key, '= <instance>: shortcut gives', r1, 'explicit replace_child gives', r2); bad = 1
    e1, c1 = build(); e2, c2 = build()
    try:
        setattr(e1, key, None); r1 = [c1.index(c) for c in e1.get_children()]
    except Exception as ex: r1 = type(ex).__name__
    try:
        e2.remove(c2[0]); r2 = [c2.index(c) for c in e2.get_children()]
    except Exception as ex: r2 = type(ex).__name__
    if r1 != r2: print(key, '= None: shortcut gives', r1, 'explicit remove gives', r2); bad = 1
    e1, c1 = build()
    if getattr(e1, key) is not c1[0]: print('read', key, 'does not return the first child'); bad = 1
    for v in vals[a]:
        e1, c1 = build(); e2, c2 = build()
        try:
            setattr(e1, key, v); r1 = [(c1.index(c), c.value_, type(c.value_).__name__) for c in e1.get_children()]
        except Exception as ex: r1 = type(ex).__name__
        try:
            c2[0].value_ = v; r2 = [(c2.index(c), c.value_, type(c.value_).__name__) for c in e2.get_children()]
        except Exception as ex: r2 = type(ex).__name__
        if r1 != r2: print(key, '=', repr(v), '(child present): shortcut gives', r1, 'explicit value assignment gives', r2); bad = 1
        e1 = {mk}; e2 = {mk}
        try:
            setattr(e1, key, v); r1 = [(type(c).__name__, c.value_, type(c.value_).__name__) for c in e1.get_children()]
        except Exception as ex: r1 = type(ex).__name__
        try:
            e2.add_child(type(eval(src))(v)); r2 = [(type(c).__name__, c.value_, type(c.value_).__name__) for c in e2.get_children()]
        except Exception as ex: r2 = type(ex).__name__
        if r1 != r2: print(key, '=', repr(v), '(no such child): shortcut gives', r1, 'explicit add_child gives', r2); bad = 1
print({o['detail']!r})
sys.exit(bad)
'''


def run(tier='quick', seed=0):
    R = report.Run('C15', tier, seed, category='other')
    R.functions = ['XMLElement.__setattr__', 'XMLElement.__getattr__', 'XMLElement._convert_attribute_to_child', 'XMLElement.find_child',
                   'XMLElement._get_attributes_error_message', 'util.core.cap_first']
    R.assumptions += ['the explicit API (add_child, replace_child, remove, _set_attributes) is replaced by recording stubs: the obligation is the dispatch, the callees are C04/C06',
                      'children used as "found" are attached to an unchecked parent by direct list insertion (pre-state construction)']
    table = elem.element_table()
    tasks = [(n, cn, t) for n, (cn, t) in sorted(table.items())]
    ctx = mp.get_context('fork')
    all_obs = []
    from ..par import collect
    all_obs.extend(collect(task, tasks, 12, 600, lambda t, why: dict(oid=f'C15/worker/{t[0]}', status='undecided', detail=why, paths=0, name=t[0], cname=t[1], kind='worker')))
    viol = sorted((o for o in all_obs if o['status'] == 'violated' and R.match_known(o['oid'], o.get('detail')) is None), key=lambda o: o['oid'])
    srcs = [(o['oid'], replay_source(o), str(o.get('detail'))) for o in viol[:report.REPLAY_CAP] if o.get('kind') in ('children', 'attrseq')]
    replayed = report.replay_many('C15', srcs, cap=len(srcs))
    for o in sorted(all_obs, key=lambda o: o['oid']):
        ob = report.Ob(o['oid'], o['status'], level='finite-complete', backend='enumeration', detail=o.get('detail'), paths=o.get('paths', 0))
        if o['status'] == 'violated':
            k = R.match_known(o['oid'], o.get('detail'))
            if o['oid'] in replayed:
                ob.replay, rc, out = replayed[o['oid']]
                if rc != 1:
                    ob.status = 'crash'
                    ob.detail = f'violation does not replay natively (rc={rc}): {o.get("detail")} :: {out[-300:]}'
            if ob.status == 'violated' and k is not None:
                ob.status = 'known'
                ob.detail = k['what']
        R.add(ob)
    R.extra['exhaustive'] = True
    R.explanation = f'{len(tasks)} element classes: every possible child name x (instance | None | value) x (found | not found) x read, every declared attribute spelling; dispatch compared with the contract through recording stubs.'
    return R.finish()
