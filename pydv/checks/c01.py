"""C01 -- matcher-facing property: proved layer (pydv/msweep, locked obligations) + bounded layer (pydv/histcheck). See checks/mprop.py."""
from .mprop import run_prop


def run(tier='quick', seed=0):
    return run_prop('C01', tier, seed)
