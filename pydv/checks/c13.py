"""C13 -- element instances are isolated from one another.

Frame contract of every public operation f(e, args): all writes go to the region owned by e, to args, or to a WRITE-ONCE cache
slot; nothing is written to the per-type templates (containers[*]), to XSD_TREE_DICT, to class-level state, or to another instance.
Write-once rule: a cache slot changes at most once, from its unset sentinel to a value.
The frame is checked by state differencing around the operations of
   - every history of the bounded layer's generator (per content type, small bound) incl. failed attempts, removals, to_string with
     and without intelligent choice,
   - construction / validation with valid and invalid values of every simple-type class, attribute setting and serialisation of
     every element class (finite, enumerated completely),
against (a) a fingerprint of ALL shared state (class dictionaries of every XSD*/XML* class, every template tree with its flags and
leaf lists, XSD_TREE_DICT and the memo fields of every XSDTree reachable from it) and (b) identity snapshots of bystander instances
of the same and of other classes created beforehand.  __copy__ ownership (a fresh element shares no mutable object with its
template) is checked per type.
"""
import multiprocessing as mp
import os
import time

from .. import xsdspec, report, elem, hist
from .c14 import snapshot, owned_region

SENTINELS = (None, 'notset')
WRITE_ONCE = {'_XSD_ATTRIBUTES', '_XSD_TREE', 'XSD_TREE', '_name', '_tag', '_namespace', '_text', '_type', '_attributes', '_xml_tree_class_name',
              '_ref', '_is_required', '_elements', '_sequence', '_traversed', '_iterated_leaves', '_reversed_path_to_root'}


def fp(v, depth=2):
    if isinstance(v, (str, int, float, bool, type(None))):
        return ('v', v)
    if isinstance(v, (list, tuple)):
        return ('l', type(v).__name__, tuple(fp(x, depth - 1) if depth > 0 else id(x) for x in v))
    if isinstance(v, dict):
        return ('d', tuple(sorted((repr(k), fp(x, depth - 1) if depth > 0 else id(x)) for k, x in v.items())))
    if isinstance(v, (set, frozenset)):
        return ('s', tuple(sorted(map(repr, v))))
    return ('o', type(v).__name__, id(v))


class Shared:
    def __init__(self):
        import musicxml.xsd.xsdsimpletype as ST, musicxml.xsd.xsdcomplextype as CT, musicxml.xsd.xsdattribute as AT
        import musicxml.xsd.xsdindicator as IND, musicxml.xmlelement.xmlelement as X, musicxml.xmlelement.xmlchildcontainer as CC
        import musicxml.xsd.xsdtree as TR, musicxml.xsd.xsdelement as EL
        from musicxml.xmlelement.containers import containers
        self.mods = (ST, CT, AT, IND, X, CC, TR, EL)
        self.containers = containers
        self.TR = TR
        self.classes = []
        seen = set()
        for m in self.mods:
            for n, c in vars(m).items():
                if isinstance(c, type) and c.__module__.startswith(('musicxml', 'verysimpletree')) and id(c) not in seen:
                    seen.add(id(c)); self.classes.append(c)

    def digest(self):
        d = {}
        for c in self.classes:
            for k, v in c.__dict__.items():
                if k.startswith('__') or callable(v) or isinstance(v, (property, classmethod, staticmethod)):
                    continue
                d[('class', c.__name__, k)] = fp(v)
        for tname, root in self.containers.items():
            for i, n in enumerate(root._raw_traverse()):
                c = n.content
                d[('template', tname, i)] = (id(n), id(n._parent) if n._parent is not None else None, tuple(id(x) for x in n._children),
                                             fp(n.__dict__.get('_chosen_child')), fp(n.__dict__.get('_force_validate')), fp(n.__dict__.get('_requirements_fulfilled')),
                                             fp(n.__dict__.get('_parent_xml_element')), n.min_occurrences, n.max_occurrences, id(c),
                                             tuple(id(x) for x in c._xml_elements) if hasattr(c, '_xml_elements') else None,
                                             fp(getattr(c, 'parent_container', None)))
                for k in ('_traversed', '_iterated_leaves', '_reversed_path_to_root'):
                    d[('template-cache', tname, i, k)] = ('set' if n.__dict__.get(k) is not None else None)
        for kind, table in self.TR.XSD_TREE_DICT.items():
            d[('xsd-tree-dict', kind)] = tuple(sorted((k, id(v)) for k, v in table.items()))
            for name, t in table.items():
                for k in ('_namespace', '_tag', '_xml_tree_class_name', '_xsd_indicator', '_attributes', '_text', '_type', '_name'):
                    v = t.__dict__.get(k)
                    d[('xsd-tree', kind, name, k)] = fp(v) if not isinstance(v, dict) else ('d', id(v), tuple(sorted(v.items())))
                d[('xsd-tree-children', kind, name)] = tuple(id(x) for x in t._children)
        return d


def diff(a, b):
    bad = []
    for k in set(a) | set(b):
        if a.get(k) != b.get(k):
            slot = k[-1] if k[0] in ('class', 'xsd-tree', 'template-cache') else None
            old = a.get(k)
            unset = old is None or old in (('v', None), ('v', 'notset')) or old == ('l', 'list', ()) and False
            if slot in WRITE_ONCE and unset:
                continue
            bad.append((k, a.get(k), b.get(k)))
    return bad


def type_task(args):
    tkey, name, tier = args
    lib = hist.Lib()
    X = lib.X
    sh = Shared()
    model = xsdspec.MODELS[tkey]
    alpha = xsdspec.alphabet(model)
    # bystanders: one instance of this class and one of an unrelated class, with children
    by = []
    for bn in (name, 'pitch' if name != 'pitch' else 'rest'):
        e = lib.fresh(bn)
        for a in xsdspec.alphabet(xsdspec.MODELS[lib.table[bn][1]])[:2]:
            try:
                e.add_child(lib.child(a))
            except Exception:
                pass
        by.append(e)
    snaps = [snapshot(e) for e in by]
    # warm-up of write-once caches is allowed; take the baseline after one construction of the type
    lib.fresh(name)
    base = sh.digest()
    k_add = 2 if len(alpha) <= 10 else 1
    hs = list(hist.histories(alpha, k_add, dup_names=(), k_after=0))
    extra = [h + (('str', ic),) for h in hs[:200] for ic in (False, True)]
    n = 0
    fails = []
    batch = []
    for h in hs + extra:
        batch.append(h)
        if len(batch) < 40 and h is not (hs + extra)[-1]:
            continue
        for hh in batch:
            hist.run(lib, name, hh)
            n += 1
        now = sh.digest()
        bad = diff(base, now)
        if bad:
            # locate the history
            culprit = None
            for hh in batch:
                before = sh.digest()
                hist.run(lib, name, hh)
                if diff(before, sh.digest()):
                    culprit = hh
                    break
            from ..histcheck import hstr
            fails.append(f'shared state written by operations on a <{name}>: {bad[0][0]} {str(bad[0][1])[:60]} -> {str(bad[0][2])[:60]}'
                         + (f' (history {hstr(culprit)})' if culprit else ' (history-order dependent)'))
            base = now
        for e, s0 in zip(by, snaps):
            if snapshot(e) != s0:
                fails.append(f'operations on a <{name}> changed another instance ({type(e).__name__})')
                snaps = [snapshot(x) for x in by]
                break
        batch = []
        if len(fails) >= 3:
            break
    # __copy__ ownership: a fresh element shares no mutable object with the template
    e = lib.fresh(name)
    tmpl = sh.containers[type(e).TYPE.__name__]
    treg = {}
    for nnode in tmpl._raw_traverse():
        treg[id(nnode)] = 'template node'; treg[id(nnode._children)] = 'template children list'; treg[id(nnode.content)] = 'template content'
        if hasattr(nnode.content, '_xml_elements'):
            treg[id(nnode.content._xml_elements)] = 'template leaf list'
    shared = set(treg) & set(owned_region(e))
    own = None if not shared else f'a fresh <{name}> shares {sorted({treg[i] for i in shared})} with its template'
    return [dict(oid=f'C13/frame/{tkey}', status='discharged' if not fails else 'violated', detail='; '.join(fails[:2]) or None, paths=n, name=name, kind='frame'),
            dict(oid=f'C13/copy-ownership/{tkey}', status='discharged' if own is None else 'violated', detail=own, paths=1, name=name, kind='own')]


def class_task(args):
    """simple-type validation and attribute / value / serialisation operations of every class: frame on shared state"""
    chunk, which = args
    import musicxml.xsd.xsdsimpletype as ST
    import musicxml.xmlelement.xmlelement as X
    from .c05 import spec_types, _witness
    sh = Shared()
    out = []
    if which == 'simple':
        for spec, cname in chunk:
            cls = getattr(ST, cname, None)
            if cls is None:
                continue
            base = sh.digest()
            for v in (_witness(xsdspec.SIMPLE[spec]), object(), '', 'zz zz', -1, 10 ** 9, 1.5):
                try:
                    cls(v)
                except Exception:
                    pass
            bad = diff(base, sh.digest())
            out.append(dict(oid=f'C13/frame-simple-type/{spec}', status='discharged' if not bad else 'violated', paths=7, name=cname, kind='simple',
                            detail=None if not bad else f'validating values with {cname} wrote shared state: {bad[0][0]} {str(bad[0][1])[:50]} -> {str(bad[0][2])[:50]}'))
    else:
        table = elem.element_table()
        for name in chunk:
            cname, tkey = table[name]
            cls = getattr(X, cname, None)
            if cls is None:
                continue
            value = elem.valid_value(tkey)
            try:
                first = cls(value) if value != '' else cls()       # first use may fill write-once caches
            except Exception:
                pass
            # bystander of the same class
            other = cls(value) if value != '' else cls()
            s0 = snapshot(other)
            base = sh.digest()
            try:
                e = cls(value) if value != '' else cls()
                for qn, tname, req in (elem.declared_attrs(tkey) if tkey in xsdspec.ALL_CT else []):
                    if tname in xsdspec.SIMPLE and ':' not in qn:
                        for v in (_witness(xsdspec.SIMPLE[tname]), object()):
                            try:
                                e._set_attributes({qn: v})
                            except Exception:
                                pass
                try:
                    e.to_string()
                except Exception:
                    pass
                try:
                    getattr(e, 'zz_unknown')
                except Exception:
                    pass
            except Exception:
                pass
            bad = diff(base, sh.digest())
            msg = None
            if bad:
                msg = f'attribute/value/serialisation operations on a <{name}> wrote shared state: {bad[0][0]} {str(bad[0][1])[:50]} -> {str(bad[0][2])[:50]}'
            elif snapshot(other) != s0:
                msg = f'operations on one <{name}> changed another instance of the same class'
            out.append(dict(oid=f'C13/frame-element-class/{name}', status='discharged' if msg is None else 'violated', paths=1, name=name, kind='class', detail=msg))
    return out


def replay_source(o):
    if o['kind'] == 'simple':
        return f'''import musicxml.xsd.xsdsimpletype as ST
def state(): return {{(c.__name__, k): (id(v), repr(v)[:80]) for c in vars(ST).values() if isinstance(c, type) for k, v in c.__dict__.items() if not k.startswith('__') and not callable(v) and not isinstance(v, property)}}
for c in (ST.XSDSimpleTypeToken,):
    pass
a = state()
for v in ('x', object(), '', -1, 1.5):
    try: ST.{o['name']}(v)
    except Exception: pass
b = state()
d = {{k: (a.get(k), b.get(k)) for k in set(a) | set(b) if a.get(k) != b.get(k) and k[1] not in ('_XSD_TREE',)}}
print('class-level state changed by validating values:', d)
print({o['detail']!r})
sys.exit(1 if d else 0)
'''
    return None


def run(tier='quick', seed=0):
    from ..histcheck import type_elements
    R = report.Run('C13', tier, seed, category='other')
    R.functions = ['every public operation reached by the bounded histories (add_child, remove, replace_child, to_string, _final_checks and the matcher below them)',
                   'XSDSimpleType.__init__ / value setters', 'XMLElement.__init__, _set_attributes, to_string, __getattr__', 'XMLChildContainer.__copy__, XSDElement.__copy__, XSDSequence/XSDChoice/XSDGroup.__copy__',
                   'XMLElement._create_child_container_tree']
    R.assumptions += ['frame conditions are checked by differencing a fingerprint of all shared state and identity snapshots of bystander instances around the operations (run-time contract checking): complete over the finite class sets, BOUNDED over operation histories',
                      f'write-once cache slots allowed to change from their unset sentinel: {sorted(WRITE_ONCE)}',
                      'objects reachable only through C extension state (ElementTree nodes) are fingerprinted by identity']
    tasks = [(t, n, tier) for t, n in sorted(type_elements().items())]
    ctx = mp.get_context('fork')
    all_obs = []
    from .c05 import spec_types
    st = sorted(spec_types().items())
    names = sorted(elem.element_table())
    ctasks = [(st[i:i + 20], 'simple') for i in range(0, len(st), 20)] + [(names[i:i + 30], 'class') for i in range(0, len(names), 30)]
    from ..par import collect
    all_obs.extend(collect(type_task, tasks, 1, 900, lambda t, why: dict(oid=f'C13/worker/{t[0]}', status='undecided', detail=why, paths=0, name=t[1], kind='frame')))
    all_obs.extend(collect(class_task, ctasks, 1, 900, lambda t, why: dict(oid=f'C13/worker/{t[1]}/{str(t[0][0])[:40]}', status='undecided', detail=why, paths=0, name=None, kind='class')))
    from .mprop import replay_history_source
    for o in sorted(all_obs, key=lambda o: o['oid']):
        ob = report.Ob(o['oid'], o['status'], level='bounded' if o['kind'] == 'frame' else 'finite-complete', backend='state-differencing', detail=o.get('detail'), paths=o.get('paths', 0))
        if o['status'] == 'violated':
            k = R.match_known(o['oid'], o.get('detail'))
            src = replay_source(o)
            if src:
                ob.replay = report.write_replay('C13', o['oid'], src, header=str(o.get('detail')))
                rc, out = report.run_replay(ob.replay)
                if rc != 1:
                    ob.replay = None
            if k is not None:
                ob.status = 'known'
                ob.detail = k['what']
        R.add(ob)
    R.explanation = (f'{len(tasks)} content types x bounded histories (frame on all shared state + bystanders, copy ownership), {len(st)} simple-type classes and {len(names)} element classes '
                     '(validation / attributes / serialisation), by state differencing.')
    return R.finish()
