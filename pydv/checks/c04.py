"""C04 -- the attribute interface of each element is exactly the schema's.

Functions under contract: XMLElement.__init__ (attribute part), _set_attributes, _check_attribute, __setattr__ (attribute
branch), _check_required_attributes, _final_checks (attribute part), _create_et_xml_element (attribute part),
XSDAttribute.__call__, util.core.replace_key_underline_with_hyphen (bounded lemma).

Per element class C (type T, attribute table Attrs(T) from the vendored schema), three surfaces (constructor keyword,
dot assignment, attribute-dictionary update as used by the parser):
  set/<qn>      key spelling k with hyph(k) = qn declared:   succeeds  <=>  the attribute's simple type accepts the value
                (callee XSDAttribute.__call__ replaced by its contract: verdict in {ok, TypeError, ValueError});
                on success attributes' = attributes[qn := v]; on failure attributes' = attributes and the error propagates
  undeclared    SYMBOLIC key k (z3 string) with hyph(k) outside the declared names (and, for the dot surface, outside the
                private / property / xml_ dispatch classes): raises XSDWrongAttribute / AttributeError, nothing stored
  none          assigning None removes the key, absent key: no-op
  required      _check_required_attributes / _final_checks raise <=> a use="required" attribute is absent
  serialise     _create_et_xml_element hands ElementTree exactly {qualified name: str(value)} and the element's tag
  attr-call     XSDAttribute.__call__(v) == type_(v) (delegation, recording stand-in) and type_ is the schema's type
"""
import itertools
import multiprocessing as mp
import os
import sys
import time

import z3

from .. import engine as E
from .. import xsdspec, report, elem, lex
from .c05 import class_name_for

SURFACES = ('ctor', 'dot', 'dict')
HYPH = z3.Function('hyph', z3.StringSort(), z3.StringSort())


def spellings(qn):
    parts = qn.split('-')
    out = []
    for seps in itertools.product('_-', repeat=len(parts) - 1):
        s = parts[0]
        for sep, p in zip(seps, parts[1:]):
            s += sep + p
        out.append(s)
    return out


class Val:
    """opaque attribute value (its validity is the verdict of the stubbed callee)"""

    def __init__(self, tag='v', falsy=False):
        self.tag = tag
        self.falsy = falsy

    def __bool__(self):
        return not self.falsy

    def __eq__(self, o):
        return self is o

    __hash__ = object.__hash__

    def __repr__(self):
        return f'<Val {self.tag}>'

    def __str__(self):
        return f'str({self.tag})'


def warm_tables():
    """global pre-state 'warmed': every lazily built attribute table already exists (built in schema order)"""
    import musicxml.xsd.xsdcomplextype as CT
    import musicxml.xsd.xsdattribute as AT
    from .c05 import ct_class_name
    from .c03 import agroup_class_name
    for t in sorted(xsdspec.ALL_CT):
        try:
            getattr(CT, ct_class_name(t)).get_xsd_attributes()
        except Exception:
            pass
    for g in sorted(xsdspec.AGROUP_ATTRS):
        try:
            getattr(AT, agroup_class_name(g)).get_xsd_attributes()
        except Exception:
            pass


WARM_SRC = """import musicxml.xsd.xsdcomplextype as _CT, musicxml.xsd.xsdattribute as _AT
for _n in %r:
    try: getattr(_CT, _n).get_xsd_attributes()
    except Exception: pass
for _n in %r:
    try: getattr(_AT, _n).get_xsd_attributes()
    except Exception: pass
"""


def task(args):
    name, cname, tkey, gstate = args
    obs = _task(name, cname, tkey, gstate)
    if gstate != 'pristine':
        for o in obs:
            o['oid'] += '@' + gstate
            o['gstate'] = gstate
    return obs


def _task(name, cname, tkey, gstate):
    import musicxml.xmlelement.xmlelement as X
    import musicxml.xsd.xsdattribute as AT
    import musicxml.exceptions as EX
    if gstate == 'warmed':
        warm_tables()
    obs = []
    cls = getattr(X, cname, None)
    if cls is None:
        return [dict(oid=f'C04/class/{name}', status='undecided', detail=f'{cname} missing')]
    is_ct = tkey in xsdspec.ALL_CT
    attrs = elem.declared_attrs(tkey) if is_ct else []
    value = elem.valid_value(tkey)
    real_call = AT.XSDAttribute.__call__
    real_hyph = X.replace_key_underline_with_hyphen
    mode = ['ok']
    calls = []

    def stub_call(self, v):
        calls.append((self, v))
        if mode[0] == 'TypeError':
            raise TypeError('stub: wrong value type')
        if mode[0] == 'ValueError':
            raise ValueError('stub: invalid value')
        return None

    def hyph_stub(dict_):
        # assumed contract of replace_key_underline_with_hyphen (bounded lemma): keys mapped by hyph(), values untouched
        out = {}
        for k, v in dict_.items():
            if isinstance(k, E.SymStr):
                out[E.SymStr(HYPH(k.e))] = v
            else:
                nk = k.replace('_', '-')
                if out.get(nk) is not None:
                    raise KeyError(f'Key {nk} already exists in dictionary.')
                out[nk] = v
        return out

    def fresh():
        return cls(value) if value != '' else cls()

    def add(oid, ok, detail=None, level='finite-complete', paths=1, witness=None, backend='enumeration'):
        obs.append(dict(oid=oid, status='discharged' if ok else 'violated', detail=None if ok else detail, level=level, paths=paths,
                        witness=witness, name=name, cname=cname, backend=backend))

    AT.XSDAttribute.__call__ = stub_call
    X.replace_key_underline_with_hyphen = hyph_stub
    try:
        try:
            lib_attrs = cls.TYPE.get_xsd_attributes() if is_ct else []
            lib_names = [a.name for a in lib_attrs]
            table_err = None
        except Exception as ex:
            lib_attrs, lib_names, table_err = [], [], f'{type(ex).__name__}: {ex}'
        # ---- set / none, per declared attribute
        for qn, tname, req in attrs:
            for surface in SURFACES:
                fails = []
                n = 0
                for key in spellings(qn):
                    if surface == 'ctor' and not key.isidentifier():
                        continue            # not expressible as a keyword argument
                    for verdict, v in (('ok', Val()), ('ok', Val(falsy=True)), ('ok', ''), ('ok', 0), ('TypeError', Val()), ('ValueError', Val())):
                        n += 1
                        mode[0] = verdict
                        calls.clear()
                        try:
                            if surface == 'ctor':
                                e = fresh() if value == '' else None
                                e = cls(value, **{key: v}) if value != '' else cls(**{key: v})
                                before = {}
                            else:
                                e = fresh()
                                before = dict(e.attributes)
                                if surface == 'dot':
                                    setattr(e, key, v)
                                else:
                                    e._set_attributes({key: v})
                            out = 'ok'
                        except Exception as ex:
                            out = type(ex).__name__
                        if out != verdict:
                            fails.append(f'{key!r} with verdict {verdict}: outcome {out}')
                            continue
                        if verdict == 'ok':
                            if e.attributes != {**before, qn: v}:
                                fails.append(f'{key!r}: stored {e.attributes!r}, expected key {qn!r}')
                            if not calls or calls[-1][1] is not v:
                                fails.append(f'{key!r}: validator not called with the value')
                            else:
                                try:
                                    tn = getattr(calls[-1][0].type_, '__name__', None)
                                except Exception as ex:
                                    tn = f'<{type(ex).__name__}: {ex}>'
                                if not tname.startswith('@') and tn != class_name_for(tname):
                                    fails.append(f'{key!r}: validated against {tn}, schema type {tname}')
                        elif surface != 'ctor' and e.attributes != before:
                            fails.append(f'{key!r}: failed set changed attributes to {e.attributes!r}')
                mode[0] = 'ok'
                add(f'C04/set/{name}/{qn}/{surface}', not fails, '; '.join(fails[:3]), paths=n,
                    witness=dict(kind='set', qn=qn, surface=surface))
            # None removes / absent is a no-op
            fails = []
            for key in spellings(qn):
                for surface in ('dot', 'dict'):
                    for present in (True, False):
                        try:
                            e = fresh()
                            if present:
                                e._attributes = {qn: Val('old'), 'other-key': Val('o')}
                            else:
                                e._attributes = {'other-key': Val('o')}
                            keep = {k: v for k, v in e._attributes.items() if k != qn}
                            if surface == 'dot':
                                setattr(e, key, None)
                            else:
                                e._set_attributes({key: None})
                            if e.attributes != keep:
                                fails.append(f'{key!r} present={present} via {surface}: {e.attributes!r}')
                        except Exception as ex:
                            fails.append(f'{key!r} present={present} via {surface}: raises {type(ex).__name__}')
            add(f'C04/none-removes/{name}/{qn}', not fails, '; '.join(fails[:3]), paths=len(spellings(qn)) * 4,
                witness=dict(kind='none', qn=qn))
        # ---- undeclared symbolic key
        declared = [qn for qn, _, _ in attrs]
        for surface in SURFACES:
            st = {'ok': True, 'detail': None, 'paths': 0, 'unsup': None, 'wit': None}

            def harness():
                k = z3.String('k')
                key = E.SymStr(k)
                E.assume(z3.Length(k) >= 1)
                E.assume(z3.And([HYPH(k) != z3.StringVal(q) for q in declared] + [z3.BoolVal(True)]))
                # true lemmas about hyph (k with "_" replaced by "-")
                us = z3.StringVal('_')
                E.ctx.solver.add(z3.Implies(z3.Not(z3.Contains(k, us)), HYPH(k) == k), z3.Length(HYPH(k)) == z3.Length(k),
                                 z3.Not(z3.Contains(HYPH(k), us)))
                if surface == 'dot':
                    E.assume(z3.Not(z3.PrefixOf(z3.StringVal('_'), k)))
                    E.assume(z3.Not(z3.PrefixOf(z3.StringVal('xml_'), k)))
                    E.assume(z3.And([k != z3.StringVal(p) for p in sorted(X.XMLElement._PROPERTIES)]))
                # link between the symbolic key and its hyphenated form that the code can observe (first character etc.)
                e = fresh()
                e._attributes = {'other-key': 1}
                v = Val()
                try:
                    if surface == 'dot':
                        X.XMLElement.__setattr__(e, key, v)
                    else:
                        # constructor and dictionary surfaces both go through _set_attributes(kwargs)
                        e._set_attributes({key: v})
                    out = 'ok'
                except Exception as ex:
                    out = type(ex).__name__
                st['paths'] += 1
                want = 'AttributeError' if surface == 'dot' else 'XSDWrongAttribute'
                if out != want or e._attributes != {'other-key': 1}:
                    E.ctx.solver.push()
                    E.ctx.solver.add(z3.Not(z3.Contains(k, z3.StringVal('_'))))     # prefer a witness on which hyph is the identity
                    m = E.model()
                    E.ctx.solver.pop()
                    if m is None:
                        m = E.model()
                    from ..values import _unescape
                    w = _unescape(m[k].as_string()) if m is not None and m[k] is not None else None
                    st.update(ok=False, detail=f'undeclared key {w!r}: outcome {out}, attributes {e._attributes!r} (expected {want}, nothing stored)', wit=w)
                return out
            mode[0] = 'ok'
            res = E.explore(harness, maxpaths=200, timeout=60)
            uns = [r.detail for r in res if r.status == 'unsupported']
            if not is_ct and surface != 'dot':
                pass
            o = dict(oid=f'C04/undeclared/{name}/{surface}', status='discharged' if st['ok'] else 'violated', detail=st['detail'], level='proved',
                     paths=st['paths'], witness=dict(kind='undeclared', surface=surface, key=st['wit']), name=name, cname=cname, backend='z3')
            if uns:
                o.update(status='undecided', detail=uns[0])
            elif st['paths'] == 0:
                o.update(status='undecided', detail='no feasible path (vacuous)')
            obs.append(o)
        # ---- required attributes
        if is_ct:
            reqs = [qn for qn, _, r in attrs if r]
            opts = [qn for qn, _, r in attrs if not r]
            fails = []
            n = 0
            for k in range(len(reqs) + 1):
                for present in itertools.combinations(reqs, k):
                    for with_opts in (False, True):
                        n += 1
                        e = fresh()
                        e._attributes = {q: Val(q) for q in present}
                        if with_opts:
                            e._attributes.update({q: Val(q) for q in opts})
                        try:
                            e._check_required_attributes()
                            out = 'ok'
                        except EX.XSDAttributeRequiredException:
                            out = 'required'
                        except Exception as ex:
                            out = type(ex).__name__
                        want = 'ok' if len(present) == len(reqs) else 'required'
                        if out != want:
                            fails.append(f'present={list(present)} opts={with_opts}: {out}, expected {want}')
            add(f'C04/required/{name}', not fails, '; '.join(fails[:3]), paths=n, witness=dict(kind='required'))
        # ---- serialisation of attributes
        log = elem.ETLog()
        elem.install_et_stub(log)
        try:
            fails = []
            cases = [dict(), {qn: Val(qn) for qn, _, _ in attrs}] + [{qn: Val(qn)} for qn, _, _ in attrs]
            for case in cases:
                e = fresh()
                e._attributes = dict(case)
                log.events.clear()
                try:
                    e._create_et_xml_element()
                except Exception as ex:
                    fails.append(f'{sorted(case)}: raises {type(ex).__name__}: {ex}')
                    continue
                els = [ev[1] for ev in log.events if ev[0] == 'Element']
                if len(els) != 1 or els[0].tag != name or els[0].attrib != {k: str(v) for k, v in case.items()}:
                    fails.append(f'{sorted(case)}: Element({els[0].tag if els else None!r}, {els[0].attrib if els else None!r})')
            add(f'C04/serialise/{name}', not fails, '; '.join(fails[:3]), paths=len(cases), witness=dict(kind='serialise'))
        finally:
            elem.uninstall_et_stub()
        if table_err:
            obs.append(dict(oid=f'C04/table/{name}', status='violated', detail=f'attribute table of {cname} cannot be built: {table_err}', level='finite-complete',
                            paths=1, witness=dict(kind='table'), name=name, cname=cname, backend='enumeration'))
    finally:
        AT.XSDAttribute.__call__ = real_call
        X.replace_key_underline_with_hyphen = real_hyph
    return obs


class _Named:
    """attribute object + a name that is safe to print even when the library cannot resolve it"""

    def __init__(self, a, name):
        object.__setattr__(self, '_a', a)
        object.__setattr__(self, 'name', name)

    def __getattr__(self, n):
        return getattr(self._a, n)

    def __setattr__(self, n, v):
        setattr(self._a, n, v)

    def __call__(self, v):
        return self._a(v)


def attr_call_obligations():
    """XSDAttribute.__call__(v) delegates to type_(v): same argument, result/exception propagated"""
    import musicxml.xsd.xsdcomplextype as CT
    from .c05 import ct_class_name
    out = []
    seen = set()
    for tkey in sorted(xsdspec.ALL_CT):
        cls = getattr(CT, ct_class_name(tkey), None)
        if cls is None:
            continue
        try:
            lib = cls.get_xsd_attributes()
        except Exception:
            continue
        for a in lib:
            if id(a) in seen:
                continue
            seen.add(id(a))
            ok, det = True, None
            try:
                aname = a.name
            except Exception as ex:
                aname = f'<unnamed:{type(ex).__name__}>'
            a = _Named(a, aname if not aname.startswith('<') else f'{aname}#{len(seen)}')
            try:
                real_t = a.type_
            except Exception as ex:
                out.append(dict(oid=f'C04/attr-call/{tkey}/{a.name}', status='violated', level='finite-complete', paths=1, backend='enumeration',
                                detail=f'type_ raises {type(ex).__name__}: {ex}', witness=dict(kind='attr-call'), name=tkey, cname=None))
                continue
            rec = []

            class Rec:
                def __init__(self, v):
                    rec.append(v)
                    if getattr(v, 'boom', None):
                        raise v.boom('x')
            try:
                a._type = Rec
                for boom in (None, TypeError, ValueError):
                    tok = type('Tok', (), {'boom': boom})()
                    try:
                        a(tok)
                        got = None
                    except Exception as ex:
                        got = type(ex)
                    if got is not boom or not rec or rec[-1] is not tok:
                        ok, det = False, f'__call__ does not delegate faithfully (boom={boom}, got={got})'
            finally:
                a._type = real_t
            out.append(dict(oid=f'C04/attr-call/{tkey}/{a.name}', status='discharged' if ok else 'violated', level='finite-complete', paths=3,
                            backend='enumeration', detail=det, witness=dict(kind='attr-call'), name=tkey, cname=None))
    return out


def hyph_lemma(bound):
    import musicxml.util.core as core
    n = 0
    for k in range(1, bound + 1):
        for tup in itertools.product('a_-', repeat=k):
            s = ''.join(tup)
            n += 1
            try:
                got = core.replace_key_underline_with_hyphen({s: 1})
            except Exception as ex:
                return n, f'{s!r}: raises {ex!r}'
            if got != {s.replace('_', '-'): 1}:
                return n, f'{s!r} -> {got!r}'
    # collisions in multi-key dictionaries raise KeyError
    try:
        core.replace_key_underline_with_hyphen({'a_b': 1, 'a-b': 2})
        return n, 'colliding keys accepted silently'
    except KeyError:
        pass
    return n + 1, None


def replay_source(o):
    w = o['witness'] or {}
    name, cname = o['name'], o['cname']
    tkey = next(iter(xsdspec.element_types()[name])) if name in xsdspec.element_types() else None
    value = elem.valid_value(tkey) if tkey else ''
    mk = f"X.{cname}({value!r})" if value != '' else f"X.{cname}()"
    head = f"import musicxml.xmlelement.xmlelement as X\nfrom musicxml.exceptions import *\n"
    if o.get('gstate') == 'warmed':
        from .c05 import ct_class_name
        from .c03 import agroup_class_name
        head += WARM_SRC % ([ct_class_name(t) for t in sorted(xsdspec.ALL_CT)], [agroup_class_name(g) for g in sorted(xsdspec.AGROUP_ATTRS)])
    attrs = elem.declared_attrs(tkey) if tkey in xsdspec.ALL_CT else []
    if w.get('kind') == 'set':
        qn = w['qn']
        tname = [t for q, t, r in attrs if q == qn][0]
        good = elem._witness(xsdspec.SIMPLE[tname]) if tname in xsdspec.SIMPLE else 'x'
        key = spellings(qn)[0]
        return head + f'''key, good = {key!r}, {good!r}
bad = 0
# contract replayed natively: a non-None value is either stored under the schema name or rejected (TypeError/ValueError)
# leaving the attributes untouched; it is never dropped silently
for val in (good, '', 0, 0.0, False):
    e = {mk}
    try:
        {'setattr(e, key, val)' if w['surface'] != 'dict' else 'e._set_attributes({key: val})'}
        out = 'ok'
    except (TypeError, ValueError) as ex:
        out = 'rejected'
    except Exception as ex:
        out = type(ex).__name__
    print('set', key, '=', repr(val), '->', out, e.attributes)
    if out == 'ok' and not ({qn!r} in e.attributes and e.attributes[{qn!r}] is val): bad = 1
    if out == 'rejected' and e.attributes: bad = 1
    if out not in ('ok', 'rejected'): bad = 1
    if val is good and out != 'ok': bad = 1
# validation must not depend on what was validated before (on this or another element): values that compare equal to an
# accepted one but have another type / are invalid must still be judged on their own
for first, second in ((1, True), (1, 1.0), (0, False), (good, good)):
    try:
        a = {mk}; {'setattr(a, key, first)' if w['surface'] != 'dict' else 'a._set_attributes({key: first})'}
    except Exception:
        continue
    fresh_verdict = None
    import subprocess
    code = "import sys; sys.path.insert(0, %r); import musicxml.xmlelement.xmlelement as X\ne = %s\ntry:\n    e._set_attributes({{%r: %r}}); print('ok')\nexcept Exception as ex: print(type(ex).__name__)" % (os.environ.get('MUSICXML_ROOT', '/repo'), {mk!r}, key, second)
    fresh_verdict = subprocess.run([sys.executable, '-W', 'ignore', '-c', code], capture_output=True, text=True).stdout.strip()
    b = {mk}
    try:
        {'setattr(b, key, second)' if w['surface'] != 'dict' else 'b._set_attributes({key: second})'}; now = 'ok'
    except Exception as ex:
        now = type(ex).__name__
    if now != fresh_verdict:
        print('after accepting', repr(first), 'the value', repr(second), 'gets verdict', now, 'but', fresh_verdict, 'in a fresh process'); bad = 1
print({o['detail']!r})
sys.exit(bad)
'''
    if w.get('kind') == 'undeclared':
        key = w.get('key') or 'zz'
        return head + f'''e = {mk}
before = dict(e.attributes)
try:
    {'X.XMLElement.__setattr__(e, %r, 1)' % key if w['surface'] == 'dot' else 'e._set_attributes({%r: 1})' % key}
    out = 'ok'
except Exception as ex:
    out = type(ex).__name__
print({key!r}, '->', out, e.attributes)
sys.exit(0 if out == {('AttributeError' if w['surface'] == 'dot' else 'XSDWrongAttribute')!r} and e.attributes == before else 1)
'''
    if w.get('kind') == 'serialise':
        return head + f'''import xml.etree.ElementTree as ET
e = {mk}
names = {[q for q, _, _ in attrs]!r}
bad = 0
for q in names:
    e._attributes = {{q: 'v'}}
    try:
        s = e.to_string() if False else ET.tostring(e.et_xml_element, encoding='unicode')
    except Exception as ex:
        print(q, 'raises', type(ex).__name__); bad = 1; continue
    if (q + '="v"') not in s:
        print('attribute', q, 'serialised as', s.strip()); bad = 1
print({o['detail']!r})
sys.exit(bad)
'''
    if w.get('kind') == 'none':
        qn = w['qn']
        return head + f'''e = {mk}
e._attributes = {{{qn!r}: 'v'}}
bad = 0
try:
    setattr(e, {spellings(qn)[0]!r}, None)
    if e.attributes: bad = 1
except Exception as ex:
    print('raises', type(ex).__name__, ex); bad = 1
print(e.attributes); print({o['detail']!r})
sys.exit(bad)
'''
    if w.get('kind') == 'required':
        reqs = [q for q, _, r in attrs if r]
        return head + f'''bad = 0
import itertools
reqs = {reqs!r}
for k in range(len(reqs) + 1):
    for present in itertools.combinations(reqs, k):
        e = {mk}
        e._attributes = {{q: 'v' for q in present}}
        try:
            e._check_required_attributes(); out = 'ok'
        except XSDAttributeRequiredException:
            out = 'required'
        want = 'ok' if len(present) == len(reqs) else 'required'
        if out != want: print(present, out, 'expected', want); bad = 1
print({o['detail']!r})
sys.exit(bad)
'''
    if w.get('kind') == 'table':
        return head + f'''try:
    [a.name for a in X.{cname}.TYPE.get_xsd_attributes()]; sys.exit(0)
except Exception as ex:
    print(type(ex).__name__, ex); sys.exit(1)
'''
    return None


def run(tier='quick', seed=0):
    R = report.Run('C04', tier, seed, category='other')
    R.functions = ['XMLElement.__init__', 'XMLElement._set_attributes', 'XMLElement._check_attribute', 'XMLElement.__setattr__',
                   'XMLElement._check_required_attributes', 'XMLElement._create_et_xml_element', 'XMLElement._get_attributes_error_message',
                   'XSDAttribute.__call__', 'XSDAttribute.name/type_/is_required', 'XSDComplexType.get_xsd_attributes',
                   'util.core.replace_key_underline_with_hyphen (bounded lemma)']
    R.assumptions += [
        'callee contract: XSDAttribute.__call__(v) returns iff the attribute\'s simple type accepts v, else raises TypeError/ValueError (delegation checked per attribute object; the simple types themselves are C05)',
        'replace_key_underline_with_hyphen maps keys by hyph(k) = k with "_" replaced by "-": BOUNDED lemma (exhaustive over {a,_,-}^<=N); in VCs hyph is uninterpreted',
        'xml.etree.ElementTree.Element stores tag and attribute dictionary verbatim (assumed contract, recording stub)',
        'dot surface precondition: key is a non-empty string (Python attribute names are)',
    ]
    import musicxml.xmlelement.xmlelement as X
    from .. import instr
    bad = instr.roundtrip_report()
    if bad:
        R.checker_errors.append(f'instrumentation round-trip failed for {bad}')
    table = elem.element_table()
    tasks = [(n, cn, t, g) for n, (cn, t) in sorted(table.items()) for g in ('pristine', 'warmed')]
    ctx = mp.get_context('fork')
    all_obs = []
    from ..par import collect
    all_obs.extend(collect(task, tasks, 1, 600, lambda t, why: dict(oid=f'C04/worker/{t[0]}@{t[3]}', status='undecided', detail=why, level='proved', paths=0, witness=None, name=t[0], cname=t[1])))
    all_obs.extend(attr_call_obligations())
    n, cex = hyph_lemma(7 if tier == 'quick' else 9)
    all_obs.append(dict(oid='C04/lemma/replace_key_underline_with_hyphen', status='discharged' if cex is None else 'violated', level='bounded',
                        detail=cex, paths=n, backend='native-exhaustive', witness=None, name=None, cname=None))
    srcs = []
    cand = sorted((o for o in all_obs if o['status'] == 'violated' and o.get('witness') and o.get('cname')
                   and R.match_known(o['oid'].rsplit('@', 1)[0] if o['oid'].endswith(('@warmed', '@pristine')) else o['oid'], o.get('detail')) is None), key=lambda o: o['oid'])
    # known findings are replayed too (a sample of them), new violations first
    kn = sorted((o for o in all_obs if o['status'] == 'violated' and o.get('witness') and o.get('cname')
                 and R.match_known(o['oid'].rsplit('@', 1)[0] if o['oid'].endswith(('@warmed', '@pristine')) else o['oid'], o.get('detail')) is not None), key=lambda o: o['oid'])
    for o in cand[:report.REPLAY_CAP] + kn[:16]:
        src = replay_source(o)
        if src:
            srcs.append((o['oid'], src, str(o.get('detail'))))
    replayed = report.replay_many('C04', srcs, cap=len(srcs))
    for o in sorted(all_obs, key=lambda o: o['oid']):
        ob = report.Ob(o['oid'], o['status'], level=o.get('level', 'proved'), backend=o.get('backend', 'z3'), detail=o.get('detail'), paths=o.get('paths', 0))
        if o['status'] == 'violated':
            k = R.match_known(o['oid'].rsplit('@', 1)[0] if o['oid'].endswith(('@warmed', '@pristine')) else o['oid'], o.get('detail'))
            if o['oid'] in replayed:
                ob.replay, rc, out = replayed[o['oid']]
                if rc != 1:
                    ob.status = 'crash'
                    ob.detail = f'violation does not replay natively (rc={rc}): {o.get("detail")} :: {out[-300:]}'
            if ob.status == 'violated' and k is not None:
                ob.status = 'known'
                ob.detail = k['what']
        R.add(ob)
    R.explanation = (f'{len(tasks)} element classes x declared attributes x 3 surfaces x key spellings x 3 validator verdicts (enumerated completely against the '
                     'callee contract), undeclared keys as one symbolic z3 string per class and surface (all keys), None-removal, required-attribute '
                     'check over all subsets of required attributes, attribute serialisation through a recording ElementTree stub.')
    return R.finish()
