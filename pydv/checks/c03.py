"""C03 -- every element class is a faithful translation of its XSD declaration.

Postconditions of import (the objects that exist after `import musicxml...` are the post-state of the generating code):
  (a) the schema copies the library loads are the vendored MusicXML 4.0 files (infoset equality)
  (b) for every element name of the partwise schema: exactly one class under the documented naming rule, no collisions,
      no extra classes, TYPE is the class of the declared type, XSD_TREE names the element
  (c) for every complex type with element content: L(template tree) = L(schema content model)      [z3 regex equivalence]
      and the tree a fresh element gets (copy of the template) has the same language
  (d) for every complex type: get_xsd_attributes() == schema attribute table (qualified names, types, required), and
      _SIMPLE_CONTENT == simple-content base;  same for the 45 attribute groups
  (e) for every simple type: one class, its base class is the class of the restriction base, union members match
(b),(d),(e) range over finite sets fixed by the schema and are enumerated completely; (c) is decided for all words.
"""
import os
import time
import xml.etree.ElementTree as ET

import z3

from .. import xsdspec, report
from .c05 import class_name_for, ct_class_name, cap_first, spec_types


def xml_class_name(name):
    return 'XML' + ''.join(cap_first(p) for p in name.split('-'))


def agroup_class_name(name):
    return 'XSDAttributeGroup' + ''.join(cap_first(p) for p in name.split('-'))


def type_class_name(tkey):
    if tkey in xsdspec.ALL_CT:
        return ct_class_name(tkey)
    return class_name_for(tkey)


# ------------------------------------------------------------------------------------------------------------------
def canon(path):
    """canonical infoset text of an XML file (C14N strips nothing we care about; comments dropped)"""
    return ET.canonicalize(from_file=path, strip_text=False, with_comments=False)


def regex_of_spec(r, sym):
    k = r[0]
    if k == 'sym':
        return z3.Re(z3.StringVal(sym[r[1]]))
    if k == 'seq':
        if not r[1]: return z3.Re(z3.StringVal(''))
        xs = [regex_of_spec(x, sym) for x in r[1]]
        return xs[0] if len(xs) == 1 else z3.Concat(*xs)
    if k == 'alt':
        xs = [regex_of_spec(x, sym) for x in r[1]]
        return xs[0] if len(xs) == 1 else z3.Union(*xs)
    if k == 'rep':
        _, x, mi, ma = r
        b = regex_of_spec(x, sym)
        return _loop(b, mi, ma)
    raise ValueError(k)


def _loop(b, mi, ma):
    if ma is None:
        if mi == 0: return z3.Star(b)
        if mi == 1: return z3.Plus(b)
        return z3.Concat(*([b] * mi + [z3.Star(b)]))
    if (mi, ma) == (1, 1): return b
    if (mi, ma) == (0, 1): return z3.Option(b)
    return z3.Loop(b, mi, ma)


def regex_of_container(node, sym, mods):
    """read the library's container tree back into a regex (node kinds from the content class)"""
    XSDElement, XSDSequence, XSDChoice, XSDGroup = mods
    c = node.content
    mi = node.min_occurrences
    ma = None if node.max_occurrences == 'unbounded' else node.max_occurrences
    if isinstance(c, XSDElement):
        nm = c.name
        if nm not in sym:
            sym[nm] = chr(0x100 + len(sym))
        b = z3.Re(z3.StringVal(sym[nm]))
    elif isinstance(c, XSDGroup):
        kids = node.get_children()
        assert len(kids) == 1
        b = regex_of_container(kids[0], sym, mods)
    elif isinstance(c, XSDSequence):
        xs = [regex_of_container(k, sym, mods) for k in node.get_children()]
        b = z3.Re(z3.StringVal('')) if not xs else (xs[0] if len(xs) == 1 else z3.Concat(*xs))
    elif isinstance(c, XSDChoice):
        xs = [regex_of_container(k, sym, mods) for k in node.get_children()]
        b = xs[0] if len(xs) == 1 else z3.Union(*xs)
    else:
        raise TypeError(c)
    return _loop(b, mi, ma)


def equiv(a, b, timeout_ms):
    s = z3.Solver()
    s.set('timeout', timeout_ms)
    w = z3.String('w')
    s.add(z3.Xor(z3.InRe(w, a), z3.InRe(w, b)))
    r = s.check()
    if r == z3.unsat:
        return 'equal', None
    if r == z3.sat:
        return 'differ', s.model()[w]
    return 'unknown', None


def run(tier='quick', seed=0):
    R = report.Run('C03', tier, seed, category='other')
    R.functions = ['generate_classes.utils (module level load)', 'xsdtree._generate_xsd_tree', 'XMLChildContainerFactory._create_child_container',
                   'XMLChildContainer._populate_children', '_convert_xsd_child_to_xsd_container', 'XMLChildContainer.__copy__',
                   'XSDComplexType.get_xsd_indicator', 'XSDComplexType.get_xsd_attributes', 'XSDAttributeGroup.get_xsd_attributes',
                   'XSDAttribute.name/type_/is_required', 'XSDTreeElement.get_xsd_tree', 'XMLElement.TYPE / XSD_TREE / name (class statements)',
                   'util.core.convert_to_xml_class_name (against the naming rule re-stated in the contract)']
    R.assumptions = [a for a in R.assumptions if 'float' not in a and 'instrument' not in a.lower() or 'CPython' in a]
    R.assumptions += ['objects are inspected natively after a plain import of /repo (no instrumentation needed: no symbolic input)',
                      'z3 regex theory decides language equivalence of the 94 content models (cvc5 re-checks in the thorough tier)']
    qt = 20000 if tier == 'quick' else 120000
    if not xsdspec.check_vendored():
        R.checker_errors.append('vendored XSD does not match SHA256SUMS')

    import copy
    import musicxml.xmlelement.xmlelement as X
    import musicxml.xsd.xsdcomplextype as CT
    import musicxml.xsd.xsdsimpletype as ST
    import musicxml.xsd.xsdattribute as AT
    import musicxml.xsd.xsdindicator as IND
    from musicxml.xsd.xsdelement import XSDElement
    from musicxml.xmlelement.containers import containers
    import musicxml.generate_classes.utils as U
    mods = (XSDElement, IND.XSDSequence, IND.XSDChoice, IND.XSDGroup)

    def ob(oid, ok, detail=None, level='finite-complete', backend='enumeration', replay_src=None, seconds=0.0):
        o = report.Ob(oid, 'discharged' if ok else 'violated', level=level, backend=backend, detail=None if ok else detail, seconds=seconds, paths=1)
        if not ok:
            k = R.match_known(oid, detail)
            if replay_src:
                o.replay = report.write_replay('C03', oid, replay_src, header=str(detail))
                rc, out = report.run_replay(o.replay)
                if rc != 1:
                    o.status = 'crash'
                    o.detail = f'violation does not replay natively (rc={rc}): {detail} :: {out[-300:]}'
                    R.add(o)
                    return
            if k is not None:
                o.status = 'known'
                o.detail = f"{k['what']}"
        R.add(o)

    # (a) schema copies
    for fn in ('musicxml_4_0.xsd', 'xml.xsd'):
        lib = os.path.join(os.path.dirname(U.__file__), fn)
        same = open(lib, 'rb').read() == open(os.path.join(xsdspec.SPEC, fn), 'rb').read()
        if not same:
            try:
                same = canon(lib) == canon(os.path.join(xsdspec.SPEC, fn))
            except Exception as ex:
                same = False
        ob(f'C03/schema-copy/{fn}', same, f'{lib} differs (infoset) from the vendored MusicXML 4.0 {fn}',
           replay_src=f"import xml.etree.ElementTree as ET, musicxml.generate_classes.utils as U\na=ET.canonicalize(from_file=os.path.join(os.path.dirname(U.__file__),{fn!r}),with_comments=False)\nb=ET.canonicalize(from_file={os.path.join(xsdspec.SPEC, fn)!r},with_comments=False)\nprint('equal' if a==b else 'DIFFERENT')\nsys.exit(0 if a==b else 1)\n")

    # (b) element classes
    et = xsdspec.element_types()
    all_xml = {n: c for n, c in vars(X).items() if isinstance(c, type) and issubclass(c, X.XMLElement) and c is not X.XMLElement}
    names_by_class = {}
    for name in sorted(et):
        names_by_class.setdefault(xml_class_name(name), []).append(name)
    for name in sorted(et):
        cn = xml_class_name(name)
        (tkey,) = et[name]
        cls = all_xml.get(cn)
        ok = cls is not None and len(names_by_class[cn]) == 1
        detail = None
        if cls is None:
            detail = f'no class {cn} for element <{name}>'
        elif len(names_by_class[cn]) > 1:
            detail = f'naming collision {names_by_class[cn]} -> {cn}'
        else:
            want = type_class_name(tkey)
            got = getattr(cls.TYPE, '__name__', None)
            if got != want:
                ok, detail = False, f'{cn}.TYPE is {got}, schema declares type {tkey} ({want})'
            elif cls.XSD_TREE is None or cls.XSD_TREE.name != name:
                ok, detail = False, f'{cn}.XSD_TREE names {getattr(cls.XSD_TREE, "name", None)!r}, expected {name!r}'
            else:
                import musicxml.util.core as core
                if core.convert_to_xml_class_name(name) != cn:
                    ok, detail = False, f'convert_to_xml_class_name({name!r}) = {core.convert_to_xml_class_name(name)!r}, rule says {cn}'
        ob(f'C03/element-class/{name}', ok, detail,
           replay_src=f"import musicxml.xmlelement.xmlelement as X\nc=getattr(X,{cn!r},None)\nprint(c, getattr(getattr(c,'TYPE',None),'__name__',None), getattr(getattr(c,'XSD_TREE',None),'name',None))\nsys.exit(1 if (c is None or getattr(c.TYPE,'__name__',None)!={type_class_name(tkey)!r} or c.XSD_TREE.name!={name!r}) else 0)\n")
    extra = sorted(set(all_xml) - {xml_class_name(n) for n in et})
    ob('C03/no-extra-element-classes', not extra, f'classes without a schema element: {extra[:5]}',
       replay_src=f"import musicxml.xmlelement.xmlelement as X\nbad=[n for n in {extra!r} if hasattr(X,n)]\nprint(bad)\nsys.exit(1 if bad else 0)\n")

    # (c) content models
    for tkey in sorted(xsdspec.ALL_CT):
        cn = ct_class_name(tkey)
        model = xsdspec.MODELS.get(tkey)
        tmpl = containers.get(cn)
        if model is None:
            ok = tmpl is None and getattr(CT, cn, None) is not None and not getattr(CT, cn).get_xsd_indicator()
            ob(f'C03/content-model/{tkey}', ok, f'{cn}: schema has no element content but the library has a container / indicator',
               replay_src=f"from musicxml.xmlelement.containers import containers\nprint({cn!r} in containers)\nsys.exit(1 if {cn!r} in containers else 0)\n")
            continue
        if tmpl is None:
            ob(f'C03/content-model/{tkey}', False, f'{cn}: no template container although the schema declares element content',
               replay_src=f"from musicxml.xmlelement.containers import containers\nsys.exit(0 if {cn!r} in containers else 1)\n")
            continue
        for which, tree in (('template', tmpl), ('instance-copy', copy.copy(tmpl))):
            t0 = time.time()
            sym = {a: chr(0x100 + i) for i, a in enumerate(xsdspec.alphabet(model))}
            a = regex_of_spec(model, sym)
            try:
                b = regex_of_container(tree, sym, mods)
            except Exception as ex:
                R.add(report.Ob(f'C03/content-model/{tkey}/{which}', 'undecided', detail=f'cannot read container back: {ex!r}'))
                continue
            r, w = equiv(a, b, qt)
            dt = time.time() - t0
            if r == 'equal':
                R.add(report.Ob(f'C03/content-model/{tkey}/{which}', 'discharged', level='proved', backend='z3-regex', seconds=dt, paths=1))
            elif r == 'unknown':
                R.add(report.Ob(f'C03/content-model/{tkey}/{which}', 'undecided', detail='solver unknown', seconds=dt))
            else:
                inv = {v: k for k, v in sym.items()}
                from ..values import _unescape
                word = [inv.get(ch, '?') for ch in _unescape(w.as_string())]
                in_spec = xsdspec.matches(model, word)
                src = (f"from musicxml.xmlelement.containers import containers\nimport copy\nc=copy.copy(containers[{cn!r}])\n"
                       f"print('word', {word!r}, 'is in the schema language:', {in_spec!r}, '; library template:')\nprint(c.get_tree_representation())\nsys.exit(1)\n")
                ob(f'C03/content-model/{tkey}/{which}', False,
                   f'{cn}: languages differ on word {word} (in schema language: {in_spec})', level='proved', backend='z3-regex', replay_src=src, seconds=dt)

    # (d) attributes
    def attr_table(objs):
        out = []
        for a in objs:
            out.append((a.name, getattr(a.type_, '__name__', None), bool(a.is_required)))
        return sorted(out)

    def want_table(rows):
        out = []
        for qn, tname, req in rows:
            tcls = {'@xml:space': None}.get(tname, class_name_for(tname) if not tname.startswith('@') else None)
            out.append((qn, tcls, req))
        return sorted(out, key=lambda r: (r[0], str(r[1]), r[2]))

    # two passes: the second one sees every lazily built shared table already filled (history independence)
    ct_order = [ct_class_name(t) for t in sorted(xsdspec.ALL_CT)]
    ag_order = [agroup_class_name(g) for g in sorted(xsdspec.AGROUP_ATTRS)]

    def warm_prefix(cts, ags):
        """replays re-create the exact evaluation history that precedes the obligation (shared lazy tables are pre-state)"""
        return ("import musicxml.xsd.xsdcomplextype as _CT, musicxml.xsd.xsdattribute as _AT\n"
                f"for _n in {cts!r}:\n    try: getattr(_CT, _n).get_xsd_attributes()\n    except Exception: pass\n"
                f"for _n in {ags!r}:\n    try: getattr(_AT, _n).get_xsd_attributes()\n    except Exception: pass\n")
    for sfx in ('', '/warmed'):
        for tkey in sorted(xsdspec.ALL_CT):
            cn = ct_class_name(tkey)
            cls = getattr(CT, cn, None)
            oid = f'C03/attributes/{tkey}' + sfx
            if cls is None:
                ob(f'C03/complex-type-class/{tkey}', False, f'no class {cn}',
                   replay_src=f"import musicxml.xsd.xsdcomplextype as CT\nsys.exit(0 if hasattr(CT,{cn!r}) else 1)\n")
                continue
            want = want_table(xsdspec.ATTRS[tkey])
            pre = warm_prefix(ct_order + ag_order if False else (ct_order if sfx else ct_order[:ct_order.index(cn)]), ag_order if sfx else [])
            src = pre + (f"import musicxml.xsd.xsdcomplextype as CT\ntry:\n    got=sorted((a.name, getattr(a.type_,'__name__',None), bool(a.is_required)) for a in CT.{cn}.get_xsd_attributes())\nexcept Exception as e:\n    got=repr(e)\n"
                   f"want={want!r}\nprint('library:',got)\nprint('schema :',want)\nsys.exit(0 if got==[tuple(w) for w in want] else 1)\n")
            try:
                got = attr_table(cls.get_xsd_attributes())
                # anonymous attribute types (xml:space) have no named class: compare name and required only
                ok = len(got) == len(want) and all(g[0] == w[0] and g[2] == w[2] and (w[1] is None or g[1] == w[1]) for g, w in zip(sorted(got), want))
                detail = None if ok else f'{cn}.get_xsd_attributes() = {sorted(set(got) - set(want))[:4]} ... vs schema {sorted(set(want) - set(got), key=str)[:4]}'
            except Exception as ex:
                ok, detail = False, f'{cn}.get_xsd_attributes() raises {type(ex).__name__}: {ex}'
            ob(oid, ok, detail, replay_src=src)
            base = xsdspec.simple_content_base(xsdspec.ALL_CT[tkey])
            wantsc = class_name_for(base) if base else None
            gotsc = getattr(cls._SIMPLE_CONTENT, '__name__', None)
            ob(f'C03/simple-content/{tkey}' + sfx, gotsc == wantsc, f'{cn}._SIMPLE_CONTENT is {gotsc}, schema says {base}',
               replay_src=f"import musicxml.xsd.xsdcomplextype as CT\ng=getattr(CT.{cn}._SIMPLE_CONTENT,'__name__',None)\nprint(g)\nsys.exit(0 if g=={wantsc!r} else 1)\n")
        for g in sorted(xsdspec.AGROUP_ATTRS):
            cn = agroup_class_name(g)
            cls = getattr(AT, cn, None)
            want = want_table(xsdspec.AGROUP_ATTRS[g])
            if cls is None:
                ob(f'C03/attribute-group/{g}', False, f'no class {cn}', replay_src=f"import musicxml.xsd.xsdattribute as AT\nsys.exit(0 if hasattr(AT,{cn!r}) else 1)\n")
                continue
            pre = warm_prefix(ct_order, ag_order if sfx else ag_order[:ag_order.index(cn)])
            src = pre + (f"import musicxml.xsd.xsdattribute as AT\ntry:\n    got=sorted((a.name, getattr(a.type_,'__name__',None), bool(a.is_required)) for a in AT.{cn}.get_xsd_attributes())\nexcept Exception as e:\n    got=repr(e)\n"
                   f"want={want!r}\nprint('library:',got)\nprint('schema :',want)\nsys.exit(0 if got==[tuple(w) for w in want] else 1)\n")
            try:
                got = attr_table(cls.get_xsd_attributes())
                ok = len(got) == len(want) and all(gg[0] == w[0] and gg[2] == w[2] and (w[1] is None or gg[1] == w[1]) for gg, w in zip(sorted(got), want))
                detail = None if ok else f'{cn}: library {sorted(set(got) - set(want))[:4]} vs schema {sorted(set(want) - set(got), key=str)[:4]}'
            except Exception as ex:
                ok, detail = False, f'{cn}.get_xsd_attributes() raises {type(ex).__name__}: {ex}'
            ob(f'C03/attribute-group/{g}' + sfx, ok, detail, replay_src=src)

    # (e) simple types
    for spec, cn in sorted(spec_types().items()):
        cls = getattr(ST, cn, None)
        d = xsdspec.SIMPLE[spec]
        if cls is None:
            ob(f'C03/simple-type-class/{spec}', False, f'no class {cn}', replay_src=f"import musicxml.xsd.xsdsimpletype as ST\nsys.exit(0 if hasattr(ST,{cn!r}) else 1)\n")
            continue
        detail = None
        node = xsdspec.stypes.get(spec)
        if node is not None:
            r = node.find(xsdspec.XS + 'restriction')
            if r is not None:
                wantb = class_name_for(r.get('base'))
                if wantb not in [k.__name__ for k in cls.__mro__[1:]]:
                    detail = f'{cn} does not derive from {wantb} (restriction base {r.get("base")})'
            u = node.find(xsdspec.XS + 'union')
            if u is not None and u.get('memberTypes'):
                wantm = sorted(class_name_for(m) for m in u.get('memberTypes').split())
                gotm = sorted(getattr(m, '__name__', '?') for m in (cls._UNION or [])) + ([] if cls._UNION else [k.__name__ for k in cls.__mro__[1:2]])
                anon = u.findall(xsdspec.XS + 'simpleType')
                if not anon and gotm != wantm:
                    detail = f'{cn} union members {gotm}, schema {wantm}'
                if anon and wantm[0] not in [k.__name__ for k in cls.__mro__[1:]] and wantm != gotm:
                    detail = f'{cn}: union with anonymous member: expected base {wantm}'
        ob(f'C03/simple-type-class/{spec}', detail is None, detail,
           replay_src=f"import musicxml.xsd.xsdsimpletype as ST\nc=ST.{cn}\nprint([k.__name__ for k in c.__mro__], [getattr(m,'__name__',None) for m in c._UNION])\nprint({detail!r})\nsys.exit(1)\n")
    extra_st = sorted(set(n for n in ST.__all__ if n != 'XSDSimpleType') - set(spec_types().values()))
    ob('C03/no-extra-simple-type-classes', not extra_st, f'simple-type classes without schema type: {extra_st[:5]}',
       replay_src=f"import musicxml.xsd.xsdsimpletype as ST\nprint({extra_st!r})\nsys.exit(1)\n")

    R.explanation = (f'{len(et)} element names, {len(xsdspec.ALL_CT)} complex types ({len(xsdspec.MODELS)} with element content, language equivalence by z3 regex '
                     f'for template and instance copy), {len(xsdspec.AGROUP_ATTRS)} attribute groups, {len(spec_types())} simple types; finite sets enumerated completely '
                     '(exhaustive), content-model equivalence decided for all words.')
    R.extra['exhaustive'] = True
    for k in R.known:
        pass
    return R.finish()
