"""C05 -- value validation matches the XSD simple types; emitted text is lexically valid.

Functions under contract (real code, instrumented at import): XSDSimpleType.__init__, the `value` setters of the primitive
classes, _check_value, _check_value_type, _populate_*, XSDTree.get_pattern, XSDComplexType.__init__/_check_value.
Contract per simple type S and value tag (pydv/values.TAGS), v symbolic:
   normal return   =>  text(v), whitespace-normalised as the validator does, is in Lex(S)            [sound]
   raises E        =>  not (v offered in normalised form and in Lex(S))                               [complete]
                       and E in {TypeError, ValueError}                                               [C19 rider]
Lex(S) comes from pydv/xsdspec + pydv/lex (vendored schema, independent readers).
Every obligation is discharged in two global pre-states: 'pristine' (nothing instantiated yet) and 'warmed' (every simple
type instantiated once before), because class-level tables are part of the pre-state.
"""
import json
import os
import subprocess
import sys
import time
import multiprocessing as mp

import z3

from .. import engine as E
from .. import values as V
from .. import lex, rx, xsdspec, report


def cap_first(s):
    return s[0].upper() + s[1:]


def class_name_for(spec_name):
    n = spec_name[3:] if spec_name.startswith('xs:') else spec_name
    return 'XSDSimpleType' + ''.join(cap_first(p) for p in n.split('-'))


def spec_types():
    """spec name -> expected class name, for the 145 MusicXML simple types + the built-ins the library models"""
    out = {}
    for n in xsdspec.stypes:
        out[n] = class_name_for(n)
    for n in ('xs:integer', 'xs:nonNegativeInteger', 'xs:positiveInteger', 'xs:decimal', 'xs:string', 'xs:token', 'xs:date',
              'xs:NMTOKEN', 'xs:Name', 'xs:NCName', 'xs:ID', 'xs:IDREF', 'xs:language'):
        out[n] = class_name_for(n)
    return out


# ---------------------------------------------------------------------------------------------------------------------
# stubs (assumed contracts) installed in the instrumented modules

class _Pat:
    def __init__(self, real, pattern, flags):
        self.real = real
        self.pattern = pattern
        self.flags = flags

    def fullmatch(self, s):
        if isinstance(s, E.SymStr):
            return E.SymOptional(z3.InRe(s.e, rx.py_regex(self.pattern, self.flags)))
        if isinstance(s, E.Sym):
            raise TypeError('expected string or bytes-like object')
        return self.real.fullmatch(s)

    def __getattr__(self, n):
        raise E.Unsupported(f're pattern method {n}')


def _re_compile(real, pattern, flags=0):
    return _Pat(real(pattern, flags), pattern, flags)


NORMALISED_MODE = [False]


def _cleaned_token_stub(real):
    def get_cleaned_token(v):
        if isinstance(v, E.SymStr):
            # assumed contract (bounded-checked by check_cleaned_token_lemma): for strings without 'exotic' whitespace
            # the result is the XSD collapse of v; on the sub-domain of already collapsed strings that is v itself
            if NORMALISED_MODE[0]:
                return v
            return E.SymStr(lex.COLLAPSE(v.e))
        return real(v)
    return get_cleaned_token


def install_stubs(ST=None):
    """assumed contracts: re.compile (translated regex) and util.core.get_cleaned_token (XSD collapse), the latter replaced in
    util.core itself and in every module that has already imported it by name"""
    import sys
    import musicxml.util.core as core
    E.EXT['re.compile'] = _re_compile
    real = getattr(core, '_dv_real_gct', None) or core.get_cleaned_token
    core._dv_real_gct = real
    stub = getattr(core, '_dv_stub_gct', None) or _cleaned_token_stub(real)
    core._dv_stub_gct = stub
    core.get_cleaned_token = stub
    for name, m in list(sys.modules.items()):
        if name.startswith('musicxml') and m is not None and m.__dict__.get('get_cleaned_token') is real:
            m.get_cleaned_token = stub
    if ST is not None:
        ST._dv_real_gct = real


_WARM = None


def warm_values():
    global _WARM
    if _WARM is None:
        _WARM = _warm_values()
    return _WARM


def _warm_values():
    """a deterministic list of (class name, python literal source) used to warm the process: one valid-looking and one
    invalid value per type, derived from the reference schema only"""
    out = []
    for spec, cname in spec_types().items():
        d = xsdspec.SIMPLE[spec]
        out.append((cname, _witness(d)))
    return out


def _witness(d):
    if d.prim == 'union':
        return _witness(d.members[0])
    if d.enums:
        return d.enums[0]
    if d.prim in ('integer',):
        return int(d.min_incl) if d.min_incl is not None else 1
    if d.prim == 'decimal':
        if d.min_incl is not None: return int(d.min_incl)
        return 1
    if d.prim == 'date':
        return '2000-01-01'
    s = z3.Solver()
    v = z3.String('w')
    s.add(lex.lex_str(d, v), z3.Length(v) <= 12)
    if s.check() == z3.sat:
        return V._unescape(s.model()[v].as_string())
    return 'a'


def do_warm(ST, order='forward'):
    items = warm_values()
    if order == 'reverse':
        items = list(reversed(items))
    for cname, val in items:
        cls = getattr(ST, cname, None)
        if cls is None:
            continue
        for v in (val, object()):
            try:
                cls(v)
            except Exception:
                pass


WARM_SRC = '''
def _warm(ST, items):
    for cname, val in items:
        cls = getattr(ST, cname, None)
        if cls is None: continue
        for v in (val, object()):
            try: cls(v)
            except Exception: pass
'''


# 'str' = strings already in whitespace-collapsed form; 'str-ws' = all other strings (only soundness is demanded there)
TAGS = [t for t in V.TAGS if t != 'str'] + ['str', 'str-ws']


def task(args):
    """one (simple type, global state): explores every tag; returns list of obligation dicts + native cross-check cases"""
    spec, cname, gstate, qt = args
    import musicxml.xsd.xsdsimpletype as ST
    install_stubs(ST)
    obs = []
    cases = []
    cls = getattr(ST, cname, None)
    if cls is None:
        return [dict(oid=f'C05/class-exists/{spec}', status='undecided', detail=f'{cname} not found')], []
    if gstate != 'pristine':
        do_warm(ST, 'forward' if gstate == 'warmed' else 'reverse')
    d = xsdspec.SIMPLE[spec]
    for tag in TAGS:
        t0 = time.time()
        st = _explore_tag(cls, d, spec, tag, gstate, qt)
        dt = time.time() - t0
        for kind in ('sound', 'complete', 'exc'):
            r = st[kind]
            oid = f'C05/{kind}/{spec}/{tag}/{gstate}'
            ob = dict(oid=oid, status=r['status'], detail=r.get('detail'), seconds=round(dt / 3, 3), paths=st['paths'],
                      witness=r.get('witness'), tag=('str' if tag == 'str-ws' else tag), spec=spec, cname=cname, gstate=gstate, kind=kind)
            obs.append(ob)
        cases.extend(st['cases'])
    return obs, cases


_KNOWN = None


def known_regions(kind, spec, tag):
    """regions (names) of committed known findings for this obligation family; global pre-state independent"""
    global _KNOWN
    if _KNOWN is None:
        _KNOWN = [k for k in report.load_known().get('findings', []) if k['property'] == 'C05']
    fam = f'C05/{kind}/{spec}/{tag}'
    return [k['region'] for k in _KNOWN if k['obligation'] == fam and k.get('region')]


def _explore_tag(cls, d, spec, tag, gstate, qt):
    res = {'sound': {'status': 'discharged'}, 'complete': {'status': 'discharged'}, 'exc': {'status': 'discharged'},
           'paths': 0, 'cases': []}
    literals = set()
    for dd in [d] + list(d.members):
        literals.update(dd.enums or [])

    def fail(kind, status, detail, witness=None):
        if res[kind]['status'] in ('discharged',) or (status == 'violated' and res[kind]['status'] == 'undecided'):
            res[kind] = {'status': status, 'detail': detail, 'witness': witness}

    vtag = 'str' if tag == 'str-ws' else tag

    def harness():
        v, term = V.make(vtag)
        NORMALISED_MODE[0] = (tag == 'str')
        if tag == 'str':
            E.assume(z3.InRe(term, z3.Intersect(lex.COLLAPSED_RE, lex.NO_EXOTIC_RE)))
        if tag == 'str-ws':
            E.assume(z3.InRe(term, z3.Intersect(z3.Complement(lex.COLLAPSED_RE), lex.NO_EXOTIC_RE)))
            for ax in lex.collapse_axioms(term, literals):
                E.ctx.solver.add(ax)
        try:
            cls(v)
            out = 'accept'
        except (TypeError, ValueError) as ex:
            out = 'reject:' + type(ex).__name__
        except Exception as ex:
            out = 'internal:' + type(ex).__name__
        m = E.model()
        wit = V.concretize(vtag, term, m) if (term is not None and m is not None) else None
        if tag != 'str-ws':     # str-ws paths depend on the uninterpreted collapse: their models need not be realisable
            res['cases'].append((cls.__name__, gstate, vtag, V.py_literal(vtag, wit), out.split(':')[0]))
        if out.startswith('internal'):
            fail('exc', 'violated', f'{out} for {tag} value {wit!r}', V.py_literal(tag, wit))
            return out
        if out == 'accept':
            goal = _sound_goal(d, tag, term, v)
            regs = known_regions('sound', spec, tag) if term is not None else []
            if goal is not None and not isinstance(goal, bool) and regs:
                goal = z3.Or([goal] + [lex.region(r_, term) for r_ in regs])
            if goal is None:
                fail('sound', 'undecided', f'accepted a {tag} value but text membership is not expressible in value space')
            else:
                r, mm = E.valid(goal) if not isinstance(goal, bool) else (('valid', None) if goal else ('invalid', m))
                if r == 'invalid':
                    w = V.concretize(vtag, term, mm) if term is not None else wit
                    fail('sound', 'violated', f'accepts {vtag} value {w!r} whose text is not in the lexical space of {spec}',
                         V.py_literal(vtag, w))
                elif r == 'unknown':
                    fail('sound', 'undecided', 'solver unknown')
        else:
            goal = _complete_goal(d, tag, term, v)
            regs = known_regions('complete', spec, tag) if term is not None else []
            if goal is not None and not isinstance(goal, bool) and regs:
                goal = z3.And([goal] + [z3.Not(lex.region(r_, term)) for r_ in regs])
            if goal is not None:
                r, mm = E.valid(z3.Not(goal)) if not isinstance(goal, bool) else (('invalid', m) if goal else ('valid', None))
                if r == 'invalid':
                    w = V.concretize(vtag, term, mm) if term is not None else wit
                    fail('complete', 'violated', f'rejects {vtag} value {w!r} although its (normalised) text is in the lexical space of {spec}',
                         V.py_literal(vtag, w))
                elif r == 'unknown':
                    fail('complete', 'undecided', 'solver unknown')
        return out

    results = E.explore(harness, maxpaths=3000, timeout=120, query_timeout_ms=qt)
    res['paths'] = len(results)
    for r in results:
        if r.status == 'unsupported':
            for kind in ('sound', 'complete'):
                fail(kind, 'undecided', r.detail)
    if not any(r.status == 'ok' for r in results):
        for kind in ('sound', 'complete', 'exc'):
            fail(kind, 'undecided', 'no feasible path (vacuous)')
    return res


def _sound_goal(d, tag, term, v):
    """formula that must be valid on an accepting path (None: not expressible)"""
    if tag == 'none':
        return lex.lex_const(d, '')
    if tag == 'bool':
        # str(True)/str(False)
        a, b = lex.lex_const(d, 'True'), lex.lex_const(d, 'False')
        return z3.And(z3.Implies(term == 1, z3.BoolVal(a)), z3.Implies(term == 0, z3.BoolVal(b)))
    if tag == 'int':
        return lex.lex_int(d, term)
    if tag == 'float':
        g = lex.lex_real(d, term)
        if g is None:
            return None
        if d.prim == 'string':
            return g
        return z3.And(g, V.float_repr_is_decimal(term))
    if tag in ('nan', 'inf', '-inf'):
        return lex.lex_const(d, {'nan': 'nan', 'inf': 'inf', '-inf': '-inf'}[tag])
    if tag == 'str':
        return lex.lex_str(d, term)
    if tag == 'str-ws':
        if d.ws == 'collapse' or (d.prim == 'union' and all(m.ws == 'collapse' for m in d.members)):
            return lex.lex_str(d, lex.COLLAPSE(term))
        if d.prim == 'union':
            return z3.Or([lex.lex_str(m, lex.COLLAPSE(term) if m.ws == 'collapse' else term) for m in d.members])
        return lex.lex_str(d, term)
    if tag == 'object':
        return None
    raise KeyError(tag)


def _complete_goal(d, tag, term, v):
    """formula describing inputs that MUST be accepted (so it must be unsatisfiable on a rejecting path); None: no demand"""
    numeric = d.prim in ('integer', 'decimal') or (d.prim == 'union' and any(m.prim in ('integer', 'decimal') for m in d.members))
    if tag == 'int':
        if not numeric:
            return None
        return lex.lex_int(_numeric_part(d), term)
    if tag == 'float':
        if not (d.prim == 'decimal' or (d.prim == 'union' and any(m.prim == 'decimal' for m in d.members))):
            return None
        return lex.lex_real(_numeric_part(d), term)
    if tag == 'str':
        sd = _string_part(d)
        if sd is None:
            return None
        return lex.lex_str(sd, term)
    if tag == 'str-ws':
        # only types that preserve whitespace have non-collapsed members of their lexical space
        sd = _string_part(d)
        if sd is None:
            return None
        if sd.prim == 'union':
            ms = [m for m in sd.members if m.ws == 'preserve']
            return z3.Or([lex.lex_str(m, term) for m in ms]) if ms else None
        return lex.lex_str(sd, term) if sd.ws == 'preserve' else None
    return None


def _numeric_part(d):
    if d.prim != 'union':
        return d
    u = xsdspec.SimpleDef(d.name + '#num')
    u.prim = 'union'
    u.members = [m for m in d.members if m.prim in ('integer', 'decimal')]
    return u


def _string_part(d):
    """the members whose values are offered as Python strings"""
    if d.prim in ('string', 'date'):
        return d
    if d.prim == 'union':
        ms = [m for m in d.members if m.prim in ('string', 'date')]
        if not ms:
            return None
        u = xsdspec.SimpleDef(d.name + '#str')
        u.prim = 'union'
        u.ws = 'collapse' if all(m.ws == 'collapse' for m in ms) else 'preserve'
        u.members = ms
        return u
    return None


# ---------------------------------------------------------------------------------------------------------------------
# complex types: simple content and empty / element-only types

def ct_task(args):
    """XSDComplexType(value): types with simple content delegate to the simple type (checked by call-site contract: the
    value reaches _SIMPLE_CONTENT unchanged and its verdict is propagated); types without simple content must reject
    non-empty text"""
    tkey, cname = args
    import musicxml.xsd.xsdcomplextype as CT
    import musicxml.xsd.xsdsimpletype as ST
    install_stubs(ST)
    cls = getattr(CT, cname, None)
    obs = []
    if cls is None:
        return [dict(oid=f'C05/ct-class-exists/{tkey}', status='undecided', detail=f'{cname} not found')], []
    base = xsdspec.simple_content_base(xsdspec.ALL_CT[tkey])
    if base is not None:
        want = getattr(ST, class_name_for(base), None)
        ok = cls._SIMPLE_CONTENT is want and want is not None
        # delegation: run the real constructor with a recording stand-in for the simple type
        calls = []

        class Rec:
            def __init__(self, val):
                calls.append(val)
                if getattr(val, 'boom', None) == 'T': raise TypeError('t')
                if getattr(val, 'boom', None) == 'V': raise ValueError('v')
        real = cls._SIMPLE_CONTENT
        det = []
        try:
            cls._SIMPLE_CONTENT = Rec
            for boom, exp in ((None, None), ('T', TypeError), ('V', ValueError)):
                tok = type('Tok', (), {'boom': boom})()
                try:
                    cls(tok)
                    got = None
                except Exception as ex:
                    got = type(ex)
                if got is not exp or calls[-1] is not tok:
                    ok = False
                    det.append(f'delegation: boom={boom} got={got}')
        finally:
            cls._SIMPLE_CONTENT = real
        obs.append(dict(oid=f'C05/ct-simple-content/{tkey}', status='discharged' if ok else 'violated', level='finite-complete',
                        detail=None if ok else f'{cname}._SIMPLE_CONTENT is {getattr(cls._SIMPLE_CONTENT, "__name__", None)}, schema says {base}; {det}',
                        witness=None, kind='ct', spec=tkey, cname=cname, paths=3))
    else:
        # no character content allowed: a non-empty string must be rejected; '' and None accepted
        st = {'status': 'discharged', 'detail': None, 'witness': None}
        paths = [0]

        def harness():
            t = z3.String('v')
            v = E.SymStr(t)
            try:
                cls(v)
                out = 'accept'
            except (TypeError, ValueError):
                out = 'reject'
            except Exception as ex:
                out = 'internal:' + type(ex).__name__
            paths[0] += 1
            if out == 'accept':
                r, mm = E.valid(z3.Length(t) == 0)
                if r == 'invalid':
                    w = V.concretize('str', t, mm)
                    st.update(status='violated', detail=f'{cname} (no character content in the schema) accepts text {w!r}', witness=repr(w))
                elif r == 'unknown':
                    st.update(status='undecided', detail='solver unknown')
            elif out == 'reject':
                r, mm = E.valid(z3.Length(t) > 0)
                if r == 'invalid':
                    st.update(status='violated', detail=f'{cname} rejects the empty text', witness="''")
            else:
                st.update(status='violated', detail=out)
            return out
        results = E.explore(harness, maxpaths=200, timeout=60)
        if any(r.status == 'unsupported' for r in results):
            st.update(status='undecided', detail=[r.detail for r in results if r.status == 'unsupported'][0])
        obs.append(dict(oid=f'C05/ct-no-text/{tkey}', status=st['status'], detail=st['detail'], witness=st['witness'],
                        kind='ct-no-text', spec=tkey, cname=cname, paths=paths[0]))
    return obs, []


def ct_class_name(tkey):
    if tkey.startswith('@'):
        return {'@score-partwise': 'XSDComplexTypeScorePartwise', '@part': 'XSDComplexTypePart', '@measure': 'XSDComplexTypeMeasure',
                '@directive': 'XSDComplexTypeDirective'}[tkey]
    return 'XSDComplexType' + ''.join(cap_first(p) for p in tkey.split('-'))


# ---------------------------------------------------------------------------------------------------------------------
# bounded lemma: get_cleaned_token == XSD collapse on strings without exotic whitespace (exhaustive up to a length bound)

def check_cleaned_token_lemma(bound):
    import itertools
    import musicxml.util.core as core
    real = getattr(core, '_dv_real_gct', None) or core.get_cleaned_token
    alpha = ['a', 'b', ' ', '\t', '\n', '\r']
    n = 0
    for k in range(bound + 1):
        for tup in itertools.product(alpha, repeat=k):
            s = ''.join(tup)
            n += 1
            if real(s) != lex.ws_collapse(s):
                return n, s
    return n, None


def check_cleaned_token_lemma_unicode(bound):
    """the same lemma where Python's str.strip()/split() and XSD disagree about what whitespace is: every character that Python
    treats as whitespace and XSD does not (lex.EXOTIC), one at a time, mixed with the four XSD whitespace characters"""
    import itertools
    import musicxml.util.core as core
    real = getattr(core, '_dv_real_gct', None) or core.get_cleaned_token
    n = 0
    for lo, hi in lex.EXOTIC:
        for cp in range(lo, hi + 1):
            if cp < 0x20:
                continue       # not an XML character at all: no document can contain it
            alpha = ['a', ' ', '\t', '\n', '\r', chr(cp)]
            for k in range(1, bound + 1):
                for tup in itertools.product(alpha, repeat=k):
                    if chr(cp) not in tup:
                        continue
                    s = ''.join(tup)
                    n += 1
                    if real(s) != lex.ws_collapse(s):
                        return n, s
    return n, None


def lemma_replay_source(o):
    return f'''import musicxml.util.core as core
s = {o['witness']}
t = s
for c in '\\t\\n\\r':
    t = t.replace(c, ' ')
want = ' '.join(p for p in t.split(' ') if p != '')     # XSD whiteSpace=collapse: #x9 #xA #xD -> #x20, runs contracted, ends trimmed
got = core.get_cleaned_token(s)
print('input', ascii(s), 'get_cleaned_token', ascii(got), 'XSD collapse', ascii(want))
sys.exit(0 if got == want else 1)
'''


# ---------------------------------------------------------------------------------------------------------------------

def builtin_lemmas(seed, n):
    """sampled (bounded) checks of the assumed contracts: float.__repr__ form, str(int), and the Python-re -> z3 regex translation"""
    import random
    import re
    import struct
    import musicxml.xsd.xsdsimpletype as ST
    rnd = random.Random(seed)
    out = []
    bad = None
    cnt = 0
    for _ in range(n):
        x = struct.unpack('<d', struct.pack('<Q', rnd.getrandbits(64)))[0] if rnd.random() < 0.5 else rnd.choice([1, -1]) * 10 ** rnd.uniform(-20, 20)
        if x != x or x in (float('inf'), float('-inf')):
            continue
        cnt += 1
        r = repr(x)
        is_dec = re.fullmatch(r'-?[0-9]+\.[0-9]+', r) is not None
        want = (x == 0) or (1e-4 <= abs(x) < 1e16)
        if is_dec != want or float(r) != x:
            bad = bad or f'repr({x!r}) = {r}'
    for b in (0.0, -0.0, 1e-4, 9.999999999999999e-05, 1e16, 9999999999999998.0, 123456789012345680.0):
        r = repr(b); cnt += 1
        if (re.fullmatch(r'-?[0-9]+\.[0-9]+', r) is not None) != ((b == 0) or (1e-4 <= abs(b) < 1e16)):
            bad = bad or f'repr({b!r}) = {r}'
    out.append(('C05/lemma/float-repr-form', bad is None, cnt, bad))
    bad = None
    for _ in range(n):
        i = rnd.randint(-10 ** rnd.randint(0, 40), 10 ** rnd.randint(0, 40))
        if re.fullmatch(r'-?(0|[1-9][0-9]*)', str(i)) is None or int(str(i)) != i:
            bad = bad or f'str({i})'
    out.append(('C05/lemma/int-str-form', bad is None, n, bad))
    pats = {}
    for name in ST.__all__:
        c = getattr(ST, name)
        try:
            p = c._PATTERN or c.get_xsd_tree().get_pattern(c.__mro__[1].get_xsd_tree())
        except Exception:
            p = None
        if p:
            pats[p] = name
    alpha = '#0123456789ABCDEFabcxyzZ:-,. \n+iIxX_\u00b7\u0300\u00e9\t'
    for p, name in sorted(pats.items(), key=lambda kv: kv[1]):
        try:
            zr = rx.py_regex(p)
        except Exception as ex:
            out.append((f'C05/lemma/py-regex/{name}', False, 0, f'pattern not translatable: {ex}'))
            continue
        cre = re.compile(p)
        bad = None
        k = 60 if n <= 2000 else 300
        for _ in range(k):
            w = ''.join(rnd.choice(alpha) for _ in range(rnd.randint(0, 9)))
            sol = z3.Solver()
            sol.add(z3.InRe(z3.StringVal(w), zr))
            if (sol.check() == z3.sat) != (cre.fullmatch(w) is not None):
                bad = bad or f'{w!r}'
        out.append((f'C05/lemma/py-regex/{name}', bad is None, k, None if bad is None else f'z3 translation and re.fullmatch disagree on {bad}'))
    return out


def replay_source(o):
    warm = ''
    if o['gstate'] != 'pristine':
        items = warm_values()
        if o['gstate'] == 'warmed-reverse':
            items = list(reversed(items))
        warm = WARM_SRC + f'_warm(ST, {items!r})\n'
    expect_accept = o['kind'] == 'complete'
    return f'''import musicxml.xsd.xsdsimpletype as ST
{warm}
class Other: pass
value = {o['witness'] if o['tag'] != 'object' else 'Other()'}
try:
    ST.{o['cname']}(value); got = 'accept'
except (TypeError, ValueError) as e:
    got = 'reject'
except Exception as e:
    got = 'internal:' + type(e).__name__
print('{o['cname']}(%r) ->' % (value,), got, '; obligation kind: {o['kind']}; reference type: {o['spec']}')
print({o['detail']!r})
if {o['kind']!r} == 'exc':
    sys.exit(1 if got.startswith('internal') else 0)
sys.exit(1 if got != {('accept' if expect_accept else 'reject')!r} else 0)
'''


def ct_replay_source(o):
    return f'''import musicxml.xsd.xsdcomplextype as CT
value = {o['witness']}
try:
    CT.{o['cname']}(value); got = 'accept'
except (TypeError, ValueError):
    got = 'reject'
print('{o['cname']}(%r) ->' % (value,), got)
print({o['detail']!r})
sys.exit(1 if got == 'accept' and value != '' else (1 if got == 'reject' and value == '' else 0))
'''


NATIVE = r'''
import sys, json, warnings; warnings.simplefilter('ignore')
sys.path.insert(0, sys.argv[2])
import musicxml.xsd.xsdsimpletype as ST
cases = json.load(open(sys.argv[1]))
class Other: pass
def _warm(items):
    for cname, val in items:
        cls = getattr(ST, cname, None)
        if cls is None: continue
        for v in (val, object()):
            try: cls(v)
            except Exception: pass
bad = []
state = 'pristine'
for gstate in ('pristine', 'warmed', 'warmed-reverse'):
    sel = [c for c in cases['cases'] if c[1] == gstate]
    if not sel: continue
    if gstate == 'warmed': _warm(cases['warm'])
    if gstate == 'warmed-reverse': _warm(list(reversed(cases['warm'])))
    for cname, g, tag, lit, out in sel:
        v = Other() if tag == 'object' else eval(lit)
        try:
            getattr(ST, cname)(v); got = 'accept'
        except (TypeError, ValueError): got = 'reject'
        except Exception: got = 'internal'
        if got != out: bad.append((cname, g, tag, lit, out, got))
json.dump(bad, sys.stdout)
'''


def run(tier='quick', seed=0):
    R = report.Run('C05', tier, seed, category='other')
    R.functions = ['XSDSimpleType.__init__', 'XSDSimpleType.value (setter)', 'XSDSimpleType._check_value', 'XSDSimpleType._check_value_type',
                   'XSDSimpleType._populate_permitted', 'XSDSimpleType._populate_forced_permitted', 'XSDSimpleType._populate_pattern',
                   'XSDSimpleTypeInteger/NonNegativeInteger/PositiveInteger/Decimal/String/Token.value (setters)',
                   'XSDTree.get_pattern', 'XSDTree.get_permitted', 'XSDTree.get_restriction', 'XSDTree.get_union',
                   'XSDComplexType.__init__', 'XSDComplexType._check_value', 'util.core.get_cleaned_token (bounded lemma)']
    R.assumptions += [
        'assumed contract of float.__repr__: decimal numeral iff x == 0 or 1e-4 <= |x| < 1e16 (else exponent form)',
        'assumed contract of str(int): canonical decimal numeral; str(True)/str(False) = "True"/"False"',
        're.compile(p).fullmatch(s) is modelled by translating p (parsed with CPython\'s own re._parser) to a z3 regex',
        'get_cleaned_token(v) = XSD collapse(v) for strings without non-XSD Unicode whitespace: BOUNDED lemma (exhaustive over {a,b,SP,TAB,LF,CR}^<=N), not proved; a second BOUNDED lemma enumerates strings over {a,SP,TAB,LF,CR,x} for every XML character x that Python strips and XSD does not; the symbolic value domain of the VCs still excludes those characters',
        'collapse axioms used in VCs (result is collapsed; identity on collapsed strings; idempotent; literal instances) are true lemmas of XSD collapse, not machine-checked',
        'the float-repr, str(int) and regex-translation contracts are additionally SAMPLED at run time (C05/lemma/*, bounded, seed = VERIF_SEED)',
    ]
    from .. import instr
    if not xsdspec.check_vendored():
        R.checker_errors.append('vendored XSD does not match SHA256SUMS')
    import musicxml.xsd.xsdsimpletype as ST   # instrumented (cli installs the hook)
    import musicxml.xsd.xsdcomplextype as CT
    bad = instr.roundtrip_report()
    if bad:
        R.checker_errors.append(f'instrumentation round-trip failed for {bad}')
    from .. import suiteguard
    g = suiteguard.run()
    R.extra['instrumented_suite_guard'] = g
    if not g['ok']:
        # the repository's own tests do not pass on the instrumented modules: the tree (or the instrumenter) is broken; no verdict is trusted
        R.checker_errors.append(f"instrumented suite guard failed: {g['line']} {g['summary']}")
    qt = 30000 if tier == 'quick' else 120000
    gstates = ['pristine', 'warmed'] + (['warmed-reverse'] if tier == 'thorough' else [])
    tasks = [(spec, cname, g, qt) for spec, cname in spec_types().items() for g in gstates]
    ct_tasks = [(tkey, ct_class_name(tkey)) for tkey in xsdspec.ALL_CT]
    ctx = mp.get_context('fork')
    all_obs, cases = [], []
    from ..par import run_chunked
    for t, kind, val in run_chunked(task, tasks, chunk=1, hard_timeout=900):
        if kind == 'ok':
            all_obs.extend(val[0]); cases.extend(val[1])
        else:
            all_obs.append(dict(oid=f'C05/worker/{t[0]}/{t[2]}', status='undecided', detail=f'worker {kind}: {str(val)[:300]}', kind='worker'))
    for t, kind, val in run_chunked(ct_task, ct_tasks, chunk=8, hard_timeout=900):
        if kind == 'ok':
            all_obs.extend(val[0])
        else:
            all_obs.append(dict(oid=f'C05/worker/{t[0]}', status='undecided', detail=f'worker {kind}: {str(val)[:300]}', kind='worker'))
    # bounded lemma
    nb, cex = check_cleaned_token_lemma(6 if tier == 'quick' else 8)
    all_obs.append(dict(oid='C05/lemma/get_cleaned_token==collapse', status='discharged' if cex is None else 'violated', level='bounded',
                        detail=f'exhaustive over {nb} strings' if cex is None else f'differs on {cex!r}', witness=repr(cex), kind='lemma', paths=nb,
                        backend='native-exhaustive'))
    nb, cex = check_cleaned_token_lemma_unicode(4 if tier == 'quick' else 6)
    all_obs.append(dict(oid='C05/lemma/get_cleaned_token==collapse/unicode-whitespace', status='discharged' if cex is None else 'violated', level='bounded',
                        detail=f'exhaustive over {nb} strings' if cex is None else f'differs on {cex!r}', witness=repr(cex), kind='lemma', paths=nb,
                        backend='native-exhaustive'))
    # bounded lemmas for the assumed contracts of the built-ins
    for oid, ok, n, det in builtin_lemmas(seed, 2000 if tier == 'quick' else 20000):
        all_obs.append(dict(oid=oid, status='discharged' if ok else 'violated', level='bounded', detail=det, witness=None, kind='lemma', paths=n, backend='native-sample'))
    # native cross-check of every explored path
    mismatches = _native_crosscheck(cases)
    if mismatches is None:
        R.checker_errors.append('native cross-check did not run')
    elif mismatches:
        R.checker_errors.append(f'native cross-check: {len(mismatches)} paths disagree with CPython, e.g. {mismatches[:3]}')
    R.extra['native_crosscheck_paths'] = len(cases)
    # classify
    for o in sorted(all_obs, key=lambda o: o['oid']):
        level = o.get('level', 'proved')
        ob = report.Ob(o['oid'], o['status'], level=level, backend=o.get('backend', 'z3'), detail=o.get('detail'), seconds=o.get('seconds', 0.0), paths=o.get('paths', 0))
        if o['status'] == 'violated':
            k = R.match_known(o['oid'])
            src = ct_replay_source(o) if o.get('kind') == 'ct-no-text' else (replay_source(o) if o.get('kind') in ('sound', 'complete', 'exc') else
                                                                             (lemma_replay_source(o) if o.get('kind') == 'lemma' and o.get('witness') not in (None, 'None') else None))
            if src is not None:
                path = report.write_replay('C05', o['oid'], src, header=str(o.get('detail')))
                rc, out = report.run_replay(path)
                ob.replay = path
                if rc != 1:
                    # the solver's counterexample does not reproduce on the real code: engine/contract defect, not a verdict
                    ob.status = 'crash' if '/str-ws/' not in o['oid'] else 'undecided'
                    ob.detail = f'counterexample does not replay natively (rc={rc}): {o.get("detail")} :: {out[-300:]}'
                elif k is not None:
                    ob.status = 'known'
                    ob.detail = f"{k['what']} (witness {o.get('witness')})"
            elif k is not None:
                ob.status = 'known'
        R.add(ob)
    # known findings: replay each committed witness on the real code; it is reported only while it still fails
    for k in R.known:
        _, kind, spec, tag = k['obligation'].split('/')
        o = dict(kind=kind, spec=spec, tag=('str' if tag == 'str-ws' else tag), gstate='pristine', witness=k['witness'],
                 cname=class_name_for(spec), detail=k['what'], oid=k['obligation'])
        path = report.write_replay('C05', 'known-' + k['obligation'] + '-' + k['region'], replay_source(o), header=k['what'])
        rc, out = report.run_replay(path)
        if rc == 1:
            R.add(report.Ob(f"{k['obligation']}[{k['region']}]", 'known', level='proved', backend='native-replay',
                            detail=f"{k['what']} (witness {k['witness']}; obligation discharged outside region '{k['region']}')", replay=path))
        else:
            R.extra.setdefault('known_not_reproduced', []).append({'entry': k, 'rc': rc})
    n_types = len(spec_types())
    R.explanation = (f'{n_types} simple types x {len(TAGS)} value tags x {len(gstates)} global pre-states, each explored symbolically through the real '
                     f'constructor; sound/complete/exception-type clauses discharged by z3 per path; {len(ct_tasks)} complex types: '
                     'simple-content delegation (finite-complete) and no-text clause (symbolic string); every explored path re-run natively '
                     'on the un-instrumented library (cross-check).')
    R.samples = [o for o in all_obs if o['status'] == 'discharged' and o.get('kind') == 'sound'][:2] + [o for o in all_obs if o['status'] != 'discharged'][:3]
    return R.finish()


def _native_crosscheck(cases):
    import tempfile
    d = tempfile.mkdtemp(prefix='c05x')
    try:
        with open(os.path.join(d, 'cases.json'), 'w') as f:
            json.dump({'cases': cases, 'warm': warm_values()}, f)
        with open(os.path.join(d, 'native.py'), 'w') as f:
            f.write(NATIVE)
        env = dict(os.environ)
        env.pop('PYTHONPATH', None)
        r = subprocess.run(['/venv/bin/python', '-W', 'ignore', os.path.join(d, 'native.py'), os.path.join(d, 'cases.json'), os.environ.get('VERIF_REPO', '/repo')],
                           capture_output=True, text=True, env=env, timeout=600)
        if r.returncode != 0:
            print(r.stderr[-2000:], file=sys.stderr)
            return None
        return json.loads(r.stdout)
    finally:
        import shutil
        shutil.rmtree(d, ignore_errors=True)
