"""C20 -- independent documents can be built concurrently from several threads.

Contracts are sequential; what this family can decide is a SUFFICIENT condition (Owicki-Gries style, global invariant):
  (1) the only state shared between documents that operations write are the lazily filled cache slots (C13's frame), and
  (2) after EVERY executed library line of the first use of every class, every cache slot that this first use writes is either still
      unset or already holds its final value ("publish once, complete"), so a second thread running in any gap sees no partial table.
(2) is checked here: per class, the first use (construct with valid value and required attributes, set every declared attribute,
serialise) is run once solo in a pristine fork to learn which shared slots it writes and their final values, then again in a second
pristine fork under a line tracer that evaluates the invariant after each library line.  A violation names file:line; the replay runs
two real threads with thread A pre-empted at that line while thread B performs the same first use to completion.
Assumptions: one attribute store / list-method call is atomic under the GIL; readers treat a set slot as final; frame completeness (C13).
This is not a proof over interleavings.
"""
import multiprocessing as mp
import os
import sys

from .. import xsdspec, report, elem
from .c13 import Shared

SLOT_NAMES = None


def struct(v, depth=3):
    if isinstance(v, (str, int, float, bool, type(None))):
        return v
    if isinstance(v, (list, tuple)):
        return (type(v).__name__, tuple(struct(x, depth - 1) for x in v)) if depth > 0 else (type(v).__name__, len(v))
    if isinstance(v, dict):
        return ('dict', tuple(sorted((repr(k), struct(x, depth - 1)) for k, x in v.items()))) if depth > 0 else ('dict', len(v))
    if isinstance(v, type):
        return ('class', v.__name__)
    d = getattr(v, '__dict__', None)
    tn = type(v).__name__
    if tn == 'XSDAttribute':
        t = v.__dict__.get('_xsd_tree')
        return (tn, struct(getattr(getattr(t, 'xml_element_tree_element', None), 'attrib', None), 1))
    if tn == 'XSDTree':
        el = v.__dict__.get('_xsd_element_tree_element')
        return (tn, getattr(el, 'tag', None), struct(dict(getattr(el, 'attrib', {})), 1))
    return (tn,)


def class_slots(sh):
    d = {}
    for c in sh.classes:
        for base in c.__mro__:
            if base.__module__.startswith(('musicxml', 'verysimpletree')):
                for k, v in base.__dict__.items():
                    if k.startswith('__') or callable(v) or isinstance(v, (property, classmethod, staticmethod)):
                        continue
                    d[(c.__name__, k)] = (c, k)      # inherited class-level slots count: a first use may shadow them on the subclass
    return d


def first_use(kind, cname, tkey):
    """the workload: first use of one class"""
    if kind == 'simple':
        import musicxml.xsd.xsdsimpletype as ST
        from .c05 import _witness
        cls = getattr(ST, cname)
        out = []
        for v in (_witness(xsdspec.SIMPLE[tkey]), object()):
            try:
                cls(v); out.append('ok')
            except Exception as ex:
                out.append(type(ex).__name__)
        return out
    import musicxml.xmlelement.xmlelement as X
    from .c05 import _witness
    cls = getattr(X, cname)
    value = elem.valid_value(tkey)
    out = []
    try:
        e = cls(value) if value != '' else cls()
        for qn, tname, req in (elem.declared_attrs(tkey) if tkey in xsdspec.ALL_CT else []):
            if tname in xsdspec.SIMPLE and ':' not in qn:
                try:
                    e._set_attributes({qn: _witness(xsdspec.SIMPLE[tname])})
                except Exception as ex:
                    out.append(f'{qn}:{type(ex).__name__}')
        try:
            out.append(e.to_string())
        except Exception as ex:
            out.append(type(ex).__name__)
    except Exception as ex:
        out.append(type(ex).__name__)
    return out


ATTR_FIELDS = ('_name', '_ref', '_type', '_is_required')


def attr_obj_value(cls, idx, field):
    """memo field of the idx-th shared XSDAttribute object of a class-level attribute table (None while the table does not exist)"""
    lst = cls.__dict__.get('_XSD_ATTRIBUTES')
    if not isinstance(lst, list) or idx >= len(lst):
        return None
    return struct(lst[idx].__dict__.get(field))


def solo(args):
    kind, cname, tkey = args
    sh = Shared()
    slots = class_slots(sh)
    before = {k: struct(getattr(c, a)) for k, (c, a) in slots.items()}
    abefore = {}
    for c in sh.classes:
        lst = c.__dict__.get('_XSD_ATTRIBUTES')
        if isinstance(lst, list):
            for i in range(len(lst)):
                for f in ATTR_FIELDS:
                    abefore[('@attr', c.__name__, i, f)] = attr_obj_value(c, i, f)
    first_use(kind, cname, tkey)
    after = {k: struct(getattr(c, a)) for k, (c, a) in slots.items()}
    written = {k: (before[k], after[k]) for k in slots if before[k] != after[k]}
    # memo fields of the shared XSDAttribute objects (lazily filled, shared between threads like the tables themselves)
    for c in sh.classes:
        lst = c.__dict__.get('_XSD_ATTRIBUTES')
        if isinstance(lst, list):
            for i in range(len(lst)):
                for f in ATTR_FIELDS:
                    k = ('@attr', c.__name__, i, f)
                    v = attr_obj_value(c, i, f)
                    if abefore.get(k) != v:
                        written[k] = (abefore.get(k), v)
    return written


def traced(args):
    kind, cname, tkey, written = args
    sh = Shared()
    slots = class_slots(sh)
    watch = [(k, slots[k], written[k][0], written[k][1]) for k in written if k in slots]
    by_name = {c.__name__: c for c in sh.classes}
    awatch = [(k, by_name[k[1]], k[2], k[3], written[k][0], written[k][1]) for k in written if k[0] == '@attr' and k[1] in by_name]
    state = {'bad': None, 'lines': 0}
    repo = os.environ.get('VERIF_REPO', '/repo')

    def check(frame):
        for k, (c, a), unset, final in watch:
            v = struct(getattr(c, a))
            if v != unset and v != final:
                state['bad'] = (k, frame.f_code.co_filename, frame.f_lineno, str(v)[:120], str(final)[:120])
                return
        for k, c, i, f, unset, final in awatch:
            v = attr_obj_value(c, i, f)
            if v is not None and v != unset and v != final:
                state['bad'] = ((f'{k[1]}._XSD_ATTRIBUTES[{i}]', f), frame.f_code.co_filename, frame.f_lineno, str(v)[:120], str(final)[:120])
                return

    def tracer(frame, event, arg):
        fn = frame.f_code.co_filename
        if not (fn.startswith(repo) or 'verysimpletree' in fn):
            return None

        def local(frame, event, arg):
            if event in ('line', 'return') and state['bad'] is None:
                state['lines'] += 1
                check(frame)
            return local
        return local
    sys.settrace(tracer)
    try:
        first_use(kind, cname, tkey)
    finally:
        sys.settrace(None)
    return state


def task(args):
    kind, cname, tkey = args
    ctx = mp.get_context('fork')
    # two pristine forks of this (pristine) worker
    with ctx.Pool(1, maxtasksperchild=1) as p:
        written = p.apply(solo, ((kind, cname, tkey),))
    with ctx.Pool(1, maxtasksperchild=1) as p:
        st = p.apply(traced, ((kind, cname, tkey, written),))
    return dict(kind=kind, cname=cname, tkey=tkey, slots=sorted('.'.join(map(str, k)) for k in written), lines=st['lines'], bad=st['bad'])


REPLAY = '''import threading
kind, cname, tkey, FILE, LINE, SLOT = {kind!r}, {cname!r}, {tkey!r}, {file!r}, {line!r}, {slot!r}
sys.path.insert(0, '/verif'); sys.path.insert(0, '/verif/.deps')
from pydv.checks.c20 import first_use
import musicxml.xmlelement.xmlelement
import subprocess, json
solo = subprocess.run([sys.executable, '-W', 'ignore', '-c', "import sys; sys.path[:0]=['/verif','/verif/.deps',%r]; from pydv.checks.c20 import first_use; import json; print(json.dumps(first_use(%r,%r,%r)))" % (os.environ.get('MUSICXML_ROOT', '/repo'), kind, cname, tkey)], capture_output=True, text=True).stdout.strip()
solo = json.loads(solo)
resume = threading.Event(); paused = threading.Event(); res = {{}}
def tracer(frame, event, arg):
    if frame.f_code.co_filename.endswith(FILE):
        def local(frame, event, arg):
            if event == 'line' and frame.f_lineno == LINE and not paused.is_set():
                paused.set(); resume.wait(20)
            return local
        return local
def A():
    sys.settrace(tracer)
    try: res['A'] = first_use(kind, cname, tkey)
    finally: sys.settrace(None)
def B():
    res['B'] = first_use(kind, cname, tkey)
ta = threading.Thread(target=A); ta.start(); paused.wait(20)
tb = threading.Thread(target=B); tb.start(); tb.join(30); resume.set(); ta.join(30)
print('thread A pre-empted at', FILE, LINE, 'with', SLOT, 'partially filled')
print('solo    :', solo); print('thread A:', res.get('A')); print('thread B:', res.get('B'))
sys.exit(0 if res.get('A') == solo and res.get('B') == solo else 1)
'''


def run(tier='quick', seed=0):
    R = report.Run('C20', tier, seed, category='other')
    R.functions = ['XSDComplexType.get_xsd_attributes', 'XSDAttributeGroup.get_xsd_attributes', 'XSDTreeElement.get_xsd_tree', 'XMLElement._fill_xsd_tree',
                   'XSDTree memo properties', 'XSDAttribute memo properties', 'XSDSequence.elements', 'XSDGroup.sequence', 'XSDSimpleType.__init__',
                   'XMLElement.__init__/_set_attributes/to_string (as first users)']
    R.assumptions += ['SUFFICIENT condition only (not a proof over interleavings): global invariant "each shared cache slot written by a first use is unset or final" holds after every executed library line',
                      'atomicity of one attribute store / list-method call under the GIL; readers treat a set slot as final; frame completeness (C13)',
                      'slot values are compared structurally (names, schema attributes), not by identity']
    import musicxml.xmlelement.xmlelement  # parent stays pristine: nothing is instantiated here
    table = elem.element_table()
    from .c05 import spec_types
    tasks = [('element', cn, t) for n, (cn, t) in sorted(table.items())] + [('simple', cn, spec) for spec, cn in sorted(spec_types().items())]
    import concurrent.futures as cf
    results = []
    ctx = mp.get_context('fork')
    # tasks fork their own children: use threads to drive them (each thread blocks on its forks)
    with cf.ThreadPoolExecutor(max_workers=min(16, os.cpu_count() or 4)) as ex:
        for r in ex.map(task, tasks):
            results.append(r)
    repo = os.environ.get('VERIF_REPO', '/repo')
    for r in sorted(results, key=lambda r: (r['kind'], r['cname'])):
        oid = f"C20/publish-complete/{r['kind']}/{r['cname']}"
        if r['bad'] is None:
            R.add(report.Ob(oid, 'discharged', level='finite-complete', backend='line tracer', paths=r['lines'], detail=None))
        else:
            k, fn, ln, v, final = r['bad']
            rel = os.path.relpath(fn, repo) if fn.startswith(repo) else fn
            detail = f'{k[0]}.{k[1]} is visible partially filled after {rel}:{ln}: {v} (final {final})'
            ob = report.Ob(oid, 'violated', level='finite-complete', backend='line tracer', paths=r['lines'], detail=detail)
            kn = R.match_known(oid, detail)
            ob.replay = report.write_replay('C20', oid, REPLAY.format(kind=r['kind'], cname=r['cname'], tkey=r['tkey'], file=os.path.basename(fn), line=ln, slot=f'{k[0]}.{k[1]}'), header=detail)
            rc, out = report.run_replay(ob.replay)
            if rc != 1:
                ob.sample = 'no-failing-input-found'
            if kn is not None:
                ob.status = 'known'
                ob.detail = kn['what']
            R.add(ob)
    R.extra['slots_written_by_first_uses'] = sorted({s for r in results for s in r['slots']})[:200]
    R.extra['exhaustive'] = True
    R.explanation = (f'{len(tasks)} classes: first use traced line by line ({sum(r["lines"] for r in results)} line events), invariant evaluated after each on the '
                     f'{len({s for r in results for s in r["slots"]})} shared slots the first uses write.')
    return R.finish()
