"""Common driver of the matcher-facing properties (C01 C02 C06 C07 C10 C11 C12 and the matcher parts of C16 C18 C19).

Two layers, reported separately and never mixed:
  proved   obligations of pydv/msweep (VCs from the instrumented real matcher code, all flag states / leaf occupancies, z3),
           restricted to those in obligations.lock.json (the set that was discharged on the unchanged tree)
  bounded  run-time contracts on every operation history up to the tier's bounds (pydv/histcheck) against the reference
           oracle; the set of failing histories must be a subset of the committed extent of the known findings
"""
import json
import os

from .. import report, xsdspec

VERIF = report.VERIF

WHAT = {
    'C01': 'to_string output is a word of the schema content model',
    'C02': 'in-order valid sequences are accepted, kept in order and pass the final check',
    'C06': 'both children views hold exactly the children added minus removed; parents agree',
    'C07': 'an accepted child never makes the element impossible to complete',
    'C10': 'a failed operation changes nothing observable',
    'C11': 'after a removal the element behaves like a fresh one holding the remaining children',
    'C12': 'a child is not rejected while a valid arrangement exists; unique arrangements are found',
    'C16': 'to_string is deterministic and has no observable effect',
    'C18': 'xsd_check=False elements never fail structurally and keep insertion order',
    'C19': 'only documented exception types, no output',
}


def load_lock():
    p = os.path.join(VERIF, 'obligations.lock.json')
    if not os.path.exists(p):
        return {}
    return json.load(open(p))


def replay_history_source(prop, tkey, name, hstr, detail):
    return f'''# bounded-tier counterexample for {prop} on <{name}> (type {tkey}):  {hstr}
sys.path.insert(0, '/verif'); sys.path.insert(0, '/verif/.deps')
from pydv import hist, histcheck, xsdspec
lib = hist.Lib()
def parse(s):
    out = []
    for tok in s.split():
        if tok.startswith('str('): out.append(('str', tok[4:-1] == 'True'))
        elif tok.startswith('+') and '@' in tok: a, i = tok[1:].split('@'); out.append(('addf', a, int(i)))
        elif tok.startswith('+'): out.append(('add', tok[1:]))
        elif tok.startswith('-#'): out.append(('rm', int(tok[2:])))
        elif tok.startswith('-k'): out.append(('rmk', int(tok[2:])))
        elif tok.startswith('#') and tok.endswith(':=fn'): out.append(('repc', int(tok[1:-4])))
        elif tok.startswith('#') and tok.endswith(':=self'): out.append(('selfrep', int(tok[1:-6])))
        elif tok.startswith('#'): j, b = tok[1:].split(':='); out.append(('rep', int(j), b))
        elif tok.endswith('=None'): out.append(('unset', tok[1:-5]))
        elif tok.startswith('.'): out.append(('set', tok[1:]))
    return tuple(out)
h = parse({hstr!r})
e, outs, kids, out = hist.run(lib, {name!r}, h)
print('history :', {hstr!r})
print('outcomes:', outs)
print('ordered view  :', [c.name for c in e.get_children(ordered=True)])
print('insertion view:', [c.name for c in e.get_children(ordered=False)])
e2, _, _, _ = hist.run(lib, {name!r}, h)
print('to_string     :', hist.verdict(e2))
print('expected      :', {WHAT.get(prop, '')!r})
print('observed      :', {detail!r})
# the same run-time contract as the check, evaluated on this one history against the library under MUSICXML_ROOT
hist.histories = lambda *a, **k: iter([h])
r = histcheck.eval_type(({tkey!r}, {name!r}, 'quick', 0, 1))
mine = [f for f in r['fails'] if f[0] == {prop!r}]
for f in mine: print('CONTRACT VIOLATED:', f[2])
sys.exit(1 if mine else 0)
'''


def run_prop(prop, tier='quick', seed=0, extra_obs=None, functions=None, extra_assumptions=None, explanation=''):
    from .. import msweep, histcheck, instr
    R = report.Run(prop, tier, seed, category='other')
    R.functions = functions or ['XMLChildContainer.add_element', 'XMLChildContainer.check_required_elements', 'XMLChildContainer.get_required_element_names',
                                'XMLChildContainer.get_leaves (truthiness contract)', 'XMLChildContainer._update_requirements_in_path', 'XMLChildContainer.set_force_validate',
                                'XMLChildContainer._set_requirements_fulfilled', '_check_if_container/sequence/group/choice_requires_elements',
                                'XMLChildContainer.max_is_reached', 'XSDElement.add_xml_element', 'XMLElement.add_child', 'XMLElement.remove', 'XMLElement.replace_child',
                                'XMLElement.get_children', 'XMLElement.to_string', 'XMLElement._final_checks', 'verysimpletree.Tree (iteration)']
    R.assumptions += [
        'proved layer: only complex types whose content model is fixed-shape (no repeated group) and duplicate-free are in reach (70 of 94); intelligent_choice=False; _check_choices_intelligently is not under contract',
        'proved layer: callees whose only effects are flag stores are summarised exactly (strongest postcondition, merged with ite); which functions qualify is decided by a static effect analysis of the current source',
        'proved layer: get_leaves(func) is replaced by its truthiness contract; leaf typing I1 (len <= maxOccurs) is assumed of every pre-state and re-proved of every post-state',
        'proved layer: clauses marked needs_inv hold relative to the Houdini-pruned inductive invariant (Init, add_element, remove preserve it)',
        'bounded layer (never counted as proved): all histories of the shapes in pydv/hist.histories up to the per-type bounds of the tier; children are childless; the oracle is pydv/xsdspec',
    ] + (extra_assumptions or [])
    bad = instr.roundtrip_report()
    if bad:
        R.checker_errors.append(f'instrumentation round-trip failed for {bad}')
    from .. import suiteguard
    g = suiteguard.run()
    R.extra['instrumented_suite_guard'] = g
    if not g['ok']:
        # the repository's own tests do not pass on the instrumented modules: the tree (or the instrumenter) is broken; no verdict is trusted
        R.checker_errors.append(f"instrumented suite guard failed: {g['line']} {g['summary']}")
    lock = load_lock()
    locked = set(lock.get('proved', [])) | (set(lock.get('proved_thorough', [])) if tier == 'thorough' else set())
    # ---- proved layer
    ms = msweep.sweep(tier)
    if not ms.get('canary_ok', False):
        R.checker_errors.append('canary failed: the engine did not refute a deliberately false contract (or found no exception path)')
    hs = histcheck.sweep(tier)
    for tk, kind, why in hs.get('failed_shards', []):
        R.add(report.Ob(f'{prop}/bounded-shard/{tk}', 'undecided', level='bounded', detail=f'a shard of the bounded enumeration of {tk} did not finish ({kind}): {why}'))
    kh_all = json.load(open(os.path.join(VERIF, 'known_histories.json'))) if os.path.exists(os.path.join(VERIF, 'known_histories.json')) else {}
    kh = kh_all.get(prop, {})
    name_of = {t['tkey']: t['name'] for t in hs['types']}
    new_hist_fail = {}
    for t in hs['types']:
        for p, h, d in t['fails']:
            if p == prop and h not in set(kh.get(t['tkey'], [])):
                new_hist_fail.setdefault(t['tkey'], []).append((h, d))
    unclaimed = 0
    n_proved = 0
    for t in ms['types']:
        for o in t['obligations']:
            if prop not in o.get('props', []):
                continue
            if o['status'] == 'crash':
                R.add(report.Ob(o['oid'], 'crash', detail=o.get('detail')))
                continue
            if o['oid'] not in locked:
                unclaimed += 1
                continue
            n_proved += 1
            ob = report.Ob(f"{prop}:{o['oid']}", o['status'], level=o.get('level', 'proved'), backend='z3' if o.get('level', 'proved') == 'proved' else 'native-exhaustive', detail=o.get('detail'), paths=o.get('paths', 0),
                           seconds=t.get('seconds', 0) / max(1, len(t['obligations'])))
            if o['status'] == 'violated':
                # counter-state from the verifier; look for a concrete history in the bounded layer
                cands = new_hist_fail.get(t['tkey'], [])
                body = f"print({o['oid']!r})\nprint({str(o.get('detail'))!r})\nprint('verifier counter-state (flags/leaf counts before the call):', {o.get('model')!r})\n"
                if cands:
                    h, d = sorted(cands, key=lambda x: (len(x[0].split()), x[0]))[0]
                    ob.replay = report.write_replay(prop, ob.oid, replay_history_source(prop, t['tkey'], t['name'], h, d) , header=body)
                    ob.detail = f"{o.get('detail')} ; failing history: {h}"
                else:
                    ob.replay = report.write_replay(prop, ob.oid, body + "print('no failing input was constructed for this obligation')\nsys.exit(2)\n")
                    ob.detail = f"no-failing-input-found: {o.get('detail')} ; counter-state {o.get('model')}"
            R.add(ob)
    locked_missing = [oid for oid in locked if prop in lock.get('props', {}).get(oid, []) and
                      not any(o['oid'] == oid for t in ms['types'] for o in t['obligations'])]
    for oid in locked_missing:
        R.add(report.Ob(f'{prop}:{oid}', 'undecided', detail='locked obligation was not generated on this tree (contracted function or type no longer found)'))
    # ---- bounded layer
    n_hist = 0
    for t in hs['types']:
        n_hist += t['counts'].get(prop, 0)
        fails = [(h, d) for p, h, d in t['fails'] if p == prop]
        known = set(kh.get(t['tkey'], []))
        new = [(h, d) for h, d in fails if h not in known]
        old = [(h, d) for h, d in fails if h in known]
        oid = f'{prop}/bounded/{t["tkey"]}'
        if new:
            h, d = sorted(new, key=lambda x: (len(x[0].split()), x[0]))[0]
            ob = report.Ob(oid, 'violated', level='bounded', backend='native-exhaustive', detail=f'{h}  ->  {d}  ({len(new)} new failing histories)', paths=t['counts'].get(prop, 0))
            ob.replay = report.write_replay(prop, oid, replay_history_source(prop, t['tkey'], t['name'], h, d), header=d)
            R.add(ob)
        else:
            R.add(report.Ob(oid, 'discharged', level='bounded', backend='native-exhaustive', paths=t['counts'].get(prop, 0),
                            detail=None))
        if old:
            k = R.match_known(oid)
            ex = sorted(old, key=lambda x: (len(x[0].split()), x[0]))[0]
            R.add(report.Ob(oid + '[known]', 'known', level='bounded', backend='native-exhaustive',
                            detail=f'{t["tkey"]}: {ex[0]}  ->  {ex[1][:140]}  ({len(old)} failing histories, all inside the committed extent)'))
    for ob in (extra_obs or []):
        R.add(ob)
    R.extra['proved_layer'] = dict(types=len(ms['types']), locked_obligations=n_proved, unclaimed_obligations_not_provable_with_surviving_invariant=unclaimed,
                                   sweep_wall_s=ms.get('wall_s'))
    R.extra['bounded_layer'] = dict(types=len(hs['types']), histories=sum(t['histories'] for t in hs['types']), contract_evaluations_for_this_property=n_hist,
                                    bounds={t['tkey']: dict(alphabet=t['alphabet'], k_add=t['k_add']) for t in hs['types']}, sweep_wall_s=hs.get('wall_s'))
    R.extra['invariants'] = {t['tkey']: t.get('invariant') for t in ms['types']}
    R.explanation = explanation or (f'{prop}: {WHAT.get(prop)}. Proved layer: {n_proved} locked obligations over {len(ms["types"])} fixed-shape types (all pre-states); '
                                    f'bounded layer: {n_hist} contract evaluations over {sum(t["histories"] for t in hs["types"])} histories of {len(hs["types"])} types.')
    return R.finish()
