"""C08 -- parser node lemmas; see checks/parsercheck.py."""
from .parsercheck import run_for


def run(tier='quick', seed=0):
    return run_for('C08', tier, seed)
