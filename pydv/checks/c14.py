"""C14 -- deep copies are faithful and independent.

Function under contract: XMLElement.__deepcopy__ (real code, instrumented).  Contract, per element class:
   post    abs(result) == abs(self)   -- class, value_, xsd_check, attributes AS CURRENTLY SET, children recursively (order of
                                          both views), every child of the copy has the copy as parent
   frame   no field of self or of its subtree is written (identity snapshot of the owned region before / after)
   owns    the owned mutable regions of self and result are disjoint (no shared dict / list / container node / child)
Pre-states: the relation between the constructor keywords (_kwargs) and the current attributes is arbitrary; it is
partitioned completely per key into {only kwargs (removed later), only attributes (set later), both same, both different,
neither}, for one and for two distinct declared keys; value_ and xsd_check changed after construction; children: every
in-order word of the reference content model up to a bound (bounded part, stated), for checked and unchecked parents.
Callee contracts: XSDAttribute.__call__ (verdict ok -- values were valid when stored); recursion on children is the same contract.
"""
import copy
import itertools
import multiprocessing as mp
import os

from .. import engine as E
from .. import xsdspec, report, elem
from .c04 import Val


class DVal(Val):
    """attribute value whose deep copy is recognisable"""

    def __deepcopy__(self, memo):
        c = DVal(self.tag)
        c.origin = self
        return c

    def same(self, o):
        return isinstance(o, DVal) and o.tag == self.tag


def owned_region(e, acc=None):
    """ids of the mutable objects an element owns"""
    acc = {} if acc is None else acc

    def put(o, what):
        acc[id(o)] = what
    put(e, f'element {type(e).__name__}')
    put(e._attributes, 'attribute dict')
    put(e._unordered_children, 'insertion list')
    if e._child_container_tree is not None:
        root = e._child_container_tree
        while root.get_parent() is not None:
            root = root.get_parent()
        for n in root._raw_traverse():
            put(n, 'container node')
            put(n._children, 'container children list')
            c = n.content
            put(c, f'content {type(c).__name__}')
            if hasattr(c, '_xml_elements'):
                put(c._xml_elements, 'leaf list')
    for ch in e._unordered_children:
        if hasattr(ch, '_unordered_children'):
            owned_region(ch, acc)
    return acc


def snapshot(e):
    """identity-level snapshot of everything __deepcopy__ must not write"""
    out = []

    def rec(x):
        d = {k: (id(v), repr(v) if isinstance(v, (str, int, float, bool, type(None))) else None) for k, v in sorted(x.__dict__.items())}
        out.append((id(x), d, dict((k, id(v)) for k, v in x._attributes.items()), [id(c) for c in x._unordered_children]))
        if x._child_container_tree is not None:
            root = x._child_container_tree
            while root.get_parent() is not None:
                root = root.get_parent()
            for n in root._raw_traverse():
                out.append((id(n), id(n._parent) if n._parent is not None else None, [id(c) for c in n._children], id(n._chosen_child) if n._chosen_child is not None else None,
                            n._force_validate, n._requirements_fulfilled,
                            [id(z) for z in n.content._xml_elements] if hasattr(n.content, '_xml_elements') else None))
        for c in x._unordered_children:
            if hasattr(c, '_unordered_children'):
                rec(c)
    rec(e)
    return out


def abs_eq(a, b, path='self', insertion=True):
    """abstract equality of two element trees; returns None or a description of the first difference"""
    if type(a) is not type(b):
        return f'{path}: class {type(a).__name__} vs {type(b).__name__}'
    if a._value != b._value or type(a._value) is not type(b._value):
        return f'{path}: value {a._value!r} vs {b._value!r}'
    if a._xsd_check != b._xsd_check:
        return f'{path}: xsd_check {a._xsd_check!r} vs {b._xsd_check!r}'
    if set(a._attributes) != set(b._attributes):
        return f'{path}: attribute keys {sorted(a._attributes)} vs {sorted(b._attributes)}'
    for k, v in a._attributes.items():
        w = b._attributes[k]
        if not (v.same(w) if isinstance(v, DVal) else v == w):
            return f'{path}: attribute {k} {v!r} vs {w!r}'
    for view in (False, True):
        try:
            ca, cb = a.get_children(ordered=view), b.get_children(ordered=view)
        except Exception as ex:
            return f'{path}: get_children raises {ex!r}'
        if not view and a._xsd_check and not insertion:
            continue      # pre-states built with removals: the two views of the original may already disagree (C06 findings); only the serialised view is the copy's obligation
        if len(ca) != len(cb):
            return f'{path}: {"ordered" if view else "insertion"} view has {len(ca)} vs {len(cb)} children'
        if not view and a._xsd_check:
            # the insertion view of a checked element is not serialised: the property fixes it only as a multiset
            if sorted(type(x).__name__ for x in ca) != sorted(type(y).__name__ for y in cb):
                return f'{path}: insertion views hold different children'
            continue
        for i, (x, y) in enumerate(zip(ca, cb)):
            if type(x) is not type(y):
                return f'{path}: child {i} of the {"ordered" if view else "insertion"} view is {type(x).__name__} vs {type(y).__name__}'
    try:
        pa, pb = a.get_children(ordered=True), b.get_children(ordered=True)
    except Exception as ex:
        return f'{path}: get_children raises {ex!r}'
    for i, (x, y) in enumerate(zip(pa, pb)):
        if y._parent is not b:
            return f'{path}/{i}: copied child does not report the copy as its parent'
        d = abs_eq(x, y, f'{path}/{i}:{type(x).__name__}', insertion)
        if d:
            return d
    return None


_DV = {}


def distinct_values(ctk):
    """up to four different values the reference schema allows for the element type (one if it has no text or only one is known)"""
    if ctk in _DV:
        return _DV[ctk]
    v0 = elem.valid_value(ctk)
    out = [v0]
    st = xsdspec.element_simple_type(ctk)
    if st and v0 != '':
        d = xsdspec.SIMPLE[st]
        if d.enums and len(d.enums) > 1:
            out = list(d.enums[:4])
        elif d.prim in ('integer', 'decimal') and not d.enums:
            cand = [v0, 2, 3, 4]
            out = [v for k, v in enumerate(cand) if v not in cand[:k]]     # filtered by the library's own verdict where they are used
        elif d.prim == 'string' and not d.patterns and not d.builtin_pattern and d.enums is None:
            out = [v0, 'text b', 'text c', 'text d']
    _DV[ctk] = out or [v0]
    return _DV[ctk]


def task(args):
    name, cname, tkey, kbound = args
    import musicxml.xmlelement.xmlelement as X
    import musicxml.xsd.xsdattribute as AT
    table = elem.element_table()
    obs = []
    cls = getattr(X, cname, None)
    if cls is None:
        return [dict(oid=f'C14/class/{name}', status='undecided', detail=f'{cname} missing')]
    is_ct = tkey in xsdspec.ALL_CT
    value = elem.valid_value(tkey)
    attrs = [qn for qn, _, _ in elem.declared_attrs(tkey)] if is_ct else []
    try:
        lib_names = [a.name for a in cls.TYPE.get_xsd_attributes()] if is_ct else []
    except Exception:
        lib_names = []
    attrs = [a for a in attrs if a in lib_names and a.isidentifier() or a.replace('-', '_').isidentifier() and a in lib_names]
    real_call = AT.XSDAttribute.__call__
    AT.XSDAttribute.__call__ = lambda self, v: None

    def mk(c=cls, val=value, **kw):
        return c(val, **kw) if val != '' else c(**kw)

    def child(nm, check=False):
        ccn, ctk = table[nm]
        v = elem.valid_value(ctk)
        c = getattr(X, ccn)
        return c(v, xsd_check=check) if v != '' else c(xsd_check=check)

    okvals = {}

    def dchild(nm, j, check=False):
        """child number j of a history: values differ between children where the child's simple type has more than one"""
        ccn, ctk = table[nm]
        c = getattr(X, ccn)
        if ccn not in okvals:
            okvals[ccn] = []
            for v in distinct_values(ctk):
                try:
                    c(v, xsd_check=False) if v != '' else c(xsd_check=False)
                    okvals[ccn].append(v)
                except Exception:
                    pass
        vs = okvals[ccn] or [elem.valid_value(ctk)]
        v = vs[j % len(vs)]
        return c(v, xsd_check=check) if v != '' else c(xsd_check=check)

    def run_case(label, build, insertion=True):
        """build() -> element in the pre-state; checks the three clauses"""
        try:
            e = build()
        except Exception as ex:
            return None     # pre-state not constructible through the API: not a case
        before = snapshot(e)
        try:
            c = copy.deepcopy(e)
        except Exception as ex:
            return f'{label}: deepcopy raises {type(ex).__name__}: {ex}'
        after = snapshot(e)
        if before != after:
            return f'{label}: the original was modified by deepcopy'
        d = abs_eq(e, c, insertion=insertion)
        if d:
            return f'{label}: copy differs: {d}'
        ra, rb = owned_region(e), owned_region(c)
        shared = set(ra) & set(rb)
        if shared:
            return f'{label}: copy and original share {sorted({ra[i] for i in shared})}'
        return None

    try:
        # ---- attribute / kwargs relation, value and xsd_check changed later
        fails = []
        n = 0
        rel_cases = ['only-kwargs', 'only-attributes', 'both-same', 'both-different', 'neither']
        keysets = [attrs[:1], attrs[:2]] if len(attrs) >= 2 else ([attrs[:1]] if attrs else [[]])
        for keys in keysets:
            for rels in itertools.product(rel_cases, repeat=len(keys)):
                for xsd in (True, False):
                    def build(keys=keys, rels=rels, xsd=xsd):
                        kw = {}
                        for k, r in zip(keys, rels):
                            if r in ('only-kwargs', 'both-same', 'both-different'):
                                kw[k.replace('-', '_')] = DVal('kw-' + k)
                        e = mk(**kw)
                        for k, r in zip(keys, rels):
                            if r == 'only-kwargs':
                                e._set_attributes({k: None})
                            elif r == 'only-attributes':
                                e._set_attributes({k: DVal('late-' + k)})
                            elif r == 'both-different':
                                e._set_attributes({k: DVal('changed-' + k)})
                        e.xsd_check = xsd
                        return e
                    n += 1
                    r = run_case(f'attributes {dict(zip(keys, rels))} xsd_check={xsd}', build)
                    if r:
                        fails.append(r)
        obs.append(dict(oid=f'C14/attributes/{name}', status='discharged' if not fails else 'violated', detail='; '.join(fails[:2]) or None,
                        level='finite-complete', paths=n, name=name, cname=cname, kind='attributes', attrs=attrs[:2]))
        # ---- value changed after construction
        st = xsdspec.element_simple_type(tkey)
        if st:
            d = xsdspec.SIMPLE[st]
            from .c05 import _witness
            alt = None
            if d.enums and len(d.enums) > 1:
                alt = d.enums[1]
            elif d.prim in ('integer', 'decimal') or (d.prim == 'union' and any(m.prim in ('integer', 'decimal') for m in d.members)):
                alt = 2 if value != 2 else 3
            elif d.prim == 'string' and not d.patterns and not d.builtin_pattern and d.enums is None:
                alt = 'other text'

            alts = [alt]
            if isinstance(alt, int):
                alts.append(float(alt))       # the same number under the other numeric type (text '2.0', not '2')
            r = None
            for al in alts:
                def build(al=al):
                    e = mk()
                    if al is not None:
                        e.value_ = al
                    return e
                r = run_case(f'value_ changed to {al!r}', build)
                if r:
                    alt = al
                    break
            obs.append(dict(oid=f'C14/value/{name}', status='discharged' if not r else 'violated', detail=r, level='finite-complete', paths=1,
                            name=name, cname=cname, kind='value', alt=alt))
        # ---- children (bounded: in-order words of the reference model up to kbound), checked and unchecked parents
        if is_ct and tkey in xsdspec.MODELS:
            model = xsdspec.MODELS[tkey]
            words = [w for w in xsdspec.words_upto(model, kbound) if w][:400]
            # plus viable prefixes (incomplete but accepted states)
            fails = []
            fail_words = []
            n = 0
            skipped = 0
            for xsd in (True, False):
                for w in words:
                    def build(w=w, xsd=xsd):
                        e = mk(xsd_check=xsd)
                        for nm in w:
                            e.add_child(child(nm))
                        return e
                    n += 1
                    try:
                        build()
                    except Exception:
                        skipped += 1       # the matcher rejects this in-order word: that is C02's finding, not a pre-state here
                        continue
                    r = run_case(f'children {list(w)} xsd_check={xsd}', build)
                    if r:
                        fails.append(r)
                        fail_words.append((list(w), xsd))
            # histories with a removal: word, remove child i, add a fresh child of the same kind (it takes the freed slot of the
            # serialised view but the last place of the insertion list); children carry distinct values where their type has several
            hist_fail = None
            for xsd in (True, False):
                for w in words[:120]:
                    for i in range(len(w)):
                        def build(w=w, xsd=xsd, i=i):
                            e = mk(xsd_check=xsd)
                            cs = [e.add_child(dchild(nm, j)) for j, nm in enumerate(w)]
                            e.remove(cs[i])
                            e.add_child(dchild(w[i], len(w)))
                            return e
                        n += 1
                        try:
                            build()
                        except Exception:
                            skipped += 1       # removal / re-add refused or failing: C11 / C06 findings, not a pre-state here
                            continue
                        r = run_case(f'children {list(w)} then remove #{i} and add {w[i]} again, xsd_check={xsd}', build, insertion=False)
                        if r:
                            fails.append(r)
                            if hist_fail is None:
                                hist_fail = (list(w), xsd, i)
            import hashlib
            sig = (f' [{len(fails)} failing cases in all, digest {hashlib.sha1(chr(10).join(fails).encode()).hexdigest()[:12]}]' if len(fails) > 2 else '')
            obs.append(dict(oid=f'C14/children/{name}', status='discharged' if not fails else 'violated', detail=('; '.join(fails[:2]) + sig) or None,
                            level='bounded', paths=n, name=name, cname=cname, kind='children', bound=kbound, skipped=skipped,
                            word=(fail_words and fail_words[0]) or None, hist=hist_fail))
    finally:
        AT.XSDAttribute.__call__ = real_call
    return obs


def replay_source(o):
    name, cname = o['name'], o['cname']
    tkey = next(iter(xsdspec.element_types()[name]))
    value = elem.valid_value(tkey)
    mk = f"X.{cname}({value!r}" if value != '' else f"X.{cname}("
    head = "import copy, musicxml.xmlelement.xmlelement as X, musicxml.xsd.xsdattribute as AT\nAT.XSDAttribute.__call__ = lambda self, v: None   # values were valid when stored\nbad = 0\n"
    if o['kind'] == 'attributes' and o.get('attrs'):
        k = o['attrs'][0]
        kw = k.replace('-', '_')
        sep = ', ' if value != '' else ''
        return head + f'''def ser(e): return (dict(e.attributes), e.value_, e.xsd_check)
cases = {{}}
e = {mk}{sep}{kw}='kw'); e._set_attributes({{{k!r}: None}}); cases['keyword attribute removed later'] = e
e = {mk}); e._set_attributes({{{k!r}: 'late'}}); cases['attribute set after construction'] = e
e = {mk}{sep}{kw}='kw'); e._set_attributes({{{k!r}: 'changed'}}); cases['keyword attribute changed later'] = e
e = {mk}{sep}{kw}='kw'); cases['keyword attribute kept'] = e
for what, e in cases.items():
    d0 = e._attributes
    c = copy.deepcopy(e)
    print(what, ':', ser(e), '| copy', ser(c), '| original dict replaced:', e._attributes is not d0, '| shared dict:', c._attributes is e._attributes)
    if ser(e) != ser(c) or e._attributes is not d0 or c._attributes is e._attributes: bad = 1
print({o['detail']!r})
sys.exit(bad)
'''
    if o['kind'] == 'children' and o.get('word'):
        w, xsd = o['word']
        tab = elem.element_table()
        adds = ''
        for nm in w:
            ccn, ctk = tab[nm]
            v = elem.valid_value(ctk)
            adds += f"e.add_child(X.{ccn}({v!r}, xsd_check=False))\n" if v != '' else f"e.add_child(X.{ccn}(xsd_check=False))\n"
        sep = ', ' if value != '' else ''
        return head + f'''import xml.etree.ElementTree as ET
e = {mk}{sep}xsd_check={xsd})
{adds}c = copy.deepcopy(e)
a = ET.tostring(e.et_xml_element, encoding='unicode'); b = ET.tostring(c.et_xml_element, encoding='unicode')
print(a); print(b)
shared = [x for x in c.get_children(ordered=False) if any(x is y for y in e.get_children(ordered=False))]
print('children shared between copy and original:', shared)
print({o['detail']!r})
sys.exit(0 if a == b and not shared and all(ch.get_parent() is c for ch in c.get_children()) else 1)
'''
    if o['kind'] == 'children' and o.get('hist'):
        w, xsd, i = o['hist']
        tab = elem.element_table()
        vals = {nm: distinct_values(tab[nm][1]) for nm in set(w)}
        classes = {nm: tab[nm][0] for nm in set(w)}
        sep = ', ' if value != '' else ''
        return head + f'''import xml.etree.ElementTree as ET
vals = {vals!r}; classes = {classes!r}; w = {list(w)!r}
def child(nm, j):
    c = getattr(X, classes[nm]); ok = []
    for v in vals[nm]:
        try:
            c(v, xsd_check=False) if v != '' else c(xsd_check=False); ok.append(v)
        except Exception: pass
    v = ok[j % len(ok)]
    return c(v, xsd_check=False) if v != '' else c(xsd_check=False)
e = {mk}{sep}xsd_check={xsd})
cs = [e.add_child(child(nm, j)) for j, nm in enumerate(w)]
e.remove(cs[{i}]); e.add_child(child(w[{i}], len(w)))
c = copy.deepcopy(e)
a = ET.tostring(e.et_xml_element, encoding='unicode'); b = ET.tostring(c.et_xml_element, encoding='unicode')
print(a); print(b)
print({o['detail']!r})
sys.exit(0 if a == b else 1)
'''
    if o['kind'] == 'value':
        return head + f'''e = {mk}); e.value_ = {o.get('alt')!r}
c = copy.deepcopy(e)
print(e.value_, c.value_)
print({o['detail']!r})
sys.exit(0 if repr(e.value_) == repr(c.value_) else 1)
'''
    return None


def run(tier='quick', seed=0):
    R = report.Run('C14', tier, seed, category='other')
    R.functions = ['XMLElement.__deepcopy__', 'XMLElement.__init__ (as called by __deepcopy__)', 'XMLElement.add_child (as called by __deepcopy__)',
                   'XMLElement.get_children', 'XMLElement._create_child_container_tree', 'XMLChildContainer.__copy__']
    R.assumptions += ['callee contract: XSDAttribute.__call__ accepts the stored values (they were validated when stored)',
                      'copy.deepcopy dispatches to __deepcopy__ / copies dicts key-wise (assumed contract of the standard library)',
                      'children clause is BOUNDED: in-order words of the reference content model up to the stated length, children themselves childless; words the matcher rejects are C02 findings and are skipped here']
    kb = 2 if tier == 'quick' else 3
    table = elem.element_table()
    tasks = [(n, cn, t, kb) for n, (cn, t) in sorted(table.items())]
    ctx = mp.get_context('fork')
    all_obs = []
    from ..par import collect
    all_obs.extend(collect(task, tasks, 6, 900, lambda t, why: dict(oid=f'C14/worker/{t[0]}', status='undecided', detail=why, level='finite-complete', paths=0, name=t[0], cname=t[1], kind='worker')))
    viol = sorted((o for o in all_obs if o['status'] == 'violated'), key=lambda o: o['oid'])
    srcs = []
    for o in viol[:report.REPLAY_CAP]:
        src = replay_source(o)
        if src:
            srcs.append((o['oid'], src, str(o.get('detail'))))
    replayed = report.replay_many('C14', srcs, cap=len(srcs))
    for o in sorted(all_obs, key=lambda o: o['oid']):
        ob = report.Ob(o['oid'], o['status'], level=o.get('level', 'proved'), backend='enumeration', detail=o.get('detail'), paths=o.get('paths', 0))
        if o['status'] == 'violated':
            k = R.match_known(o['oid'], o.get('detail'))
            if o['oid'] in replayed:
                ob.replay, rc, out = replayed[o['oid']]
                if rc != 1:
                    ob.status = 'crash'
                    ob.detail = f'violation does not replay natively (rc={rc}): {o.get("detail")} :: {out[-300:]}'
            if ob.status == 'violated' and k is not None:
                ob.status = 'known'
                ob.detail = k['what']
        R.add(ob)
    R.extra['children_words_skipped_because_matcher_rejects'] = sum(o.get('skipped', 0) for o in all_obs)
    R.explanation = (f'{len(tasks)} element classes: complete partition of the kwargs/attributes relation for one and two keys x xsd_check, value changed later, '
                     f'children = every in-order word of the reference model up to length {kb} (bounded) for checked and unchecked parents; '
                     'post-state compared abstractly, original compared by identity snapshot, ownership regions intersected.')
    return R.finish()
