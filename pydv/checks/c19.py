"""C19 -- misuse is reported with the documented exception types, silently otherwise.

Exceptional postcondition 'raised type in {XMLElement*/XMLChildContainer*/XSD* families, TypeError, ValueError, AttributeError for an
unknown dot name}', and 'nothing is written to stdout/stderr', on
   proved   every path of add_element from every matcher state (locked obligations M/add-exceptions of pydv/msweep), every path of
            every simple-type constructor (C05's exc clauses are re-used through its evidence, not re-run here)
   misuse   every element class x a complete list of wrong-argument calls of the public entry points (finite, enumerated)
   static   no print()/sys.stdout/sys.stderr write in the library modules; NotImplementedError sites listed
   bounded  every history of the bounded layer (exception types, captured output, to_string with intelligent choice)
Termination ('never hangs') is NOT decided by this family of technique: exploration finishing is evidence for the explored
pre-states only.
"""
import ast
import contextlib
import glob
import io
import multiprocessing as mp
import os

from .. import xsdspec, report, elem
from .mprop import run_prop


def misuse_task(names):
    import musicxml.xmlelement.xmlelement as X
    import musicxml.xmlelement.exceptions as XE
    import musicxml.exceptions as ME
    documented = tuple(c for m in (XE, ME) for c in vars(m).values() if isinstance(c, type) and issubclass(c, Exception)) + (TypeError, ValueError)
    table = elem.element_table()
    out = []
    for name in names:
        cname, tkey = table[name]
        cls = getattr(X, cname, None)
        if cls is None:
            continue
        value = elem.valid_value(tkey)

        def fresh(check=True):
            return cls(value, xsd_check=check) if value != '' else cls(xsd_check=check)
        weird = [None, 5, 'x', 1.5, object(), [], X.XMLElement, 10 ** 400, -10 ** 400, float('nan'), True]
        calls = []
        for w in weird:
            calls += [('add_child', lambda e, w=w: e.add_child(w), False), ('remove', lambda e, w=w: e.remove(w), False),
                      ('replace_child', lambda e, w=w: e.replace_child(w, X.XMLStep('A')), False),
                      ('constructor value', lambda e, w=w: cls(w), False),
                      ('value_', lambda e, w=w: setattr(e, 'value_', w), False),
                      ('dot unknown', lambda e, w=w: setattr(e, 'zz_unknown_name', w), True),
                      ('xml_ unknown', lambda e, w=w: setattr(e, 'xml_zz_unknown', w), True),
                      ('constructor keyword', lambda e, w=w: cls(**({'zz_unknown': w})) if value == '' else cls(value, zz_unknown=w), False)]
        calls += [('read unknown', lambda e: e.zz_unknown_name, True), ('read xml_ unknown', lambda e: e.xml_zz_unknown, True),
                  ('to_string', lambda e: e.to_string(), False), ('to_string ic', lambda e: e.to_string(intelligent_choice=True), False),
                  ('add_child forward weird', lambda e: e.add_child(X.XMLStep('A'), forward='x'), False),
                  ('find_child', lambda e: e.find_child(5), False), ('get_children', lambda e: e.get_children(ordered=None), False)]
        fails = []
        buf = io.StringIO()
        with contextlib.redirect_stdout(buf), contextlib.redirect_stderr(buf):
            for label, f, attr_ok in calls:
                try:
                    e = fresh()
                    f(e)
                except documented:
                    pass
                except AttributeError as ex:
                    if not attr_ok:
                        fails.append(f'{label}: AttributeError {str(ex)[:70]}')
                except Exception as ex:
                    fails.append(f'{label}: {type(ex).__name__} {str(ex)[:70]}')
        if buf.getvalue():
            fails.append(f'output written: {buf.getvalue()[:60]!r}')
        out.append(dict(oid=f'C19/misuse/{name}', status='discharged' if not fails else 'violated', detail='; '.join(sorted(set(fails))[:4]) or None, paths=len(calls),
                        name=name, cname=cname))
    return out


def static_scan(repo):
    prints, nie = [], []
    for path in sorted(glob.glob(os.path.join(repo, 'musicxml', '**', '*.py'), recursive=True)):
        rel = os.path.relpath(path, repo)
        if '/tests/' in rel or rel.startswith('musicxml/generate_classes/generate_') or '/defaults/' in rel or '/profiler/' in rel or os.path.basename(rel).startswith('_test'):
            continue
        tree = ast.parse(open(path, encoding='utf-8').read())
        for n in ast.walk(tree):
            if isinstance(n, ast.Call) and isinstance(n.func, ast.Name) and n.func.id == 'print':
                prints.append(f'{rel}:{n.lineno}')
            if isinstance(n, ast.Attribute) and isinstance(n.value, ast.Name) and n.value.id == 'sys' and n.attr in ('stdout', 'stderr'):
                prints.append(f'{rel}:{n.lineno} sys.{n.attr}')
            if isinstance(n, ast.Raise) and n.exc is not None:
                nm = n.exc.func.id if isinstance(n.exc, ast.Call) and isinstance(n.exc.func, ast.Name) else getattr(n.exc, 'id', None)
                if nm == 'NotImplementedError':
                    nie.append(f'{rel}:{n.lineno}')
    import verysimpletree.tree as T
    return prints, nie


def run(tier='quick', seed=0):
    table = elem.element_table()
    names = sorted(table)
    ctx = mp.get_context('fork')
    obs = []
    from ..par import collect
    obs.extend(collect(misuse_task, [names[i:i + 20] for i in range(0, len(names), 20)], 1, 600, lambda t, why: dict(oid=f'C19/worker/{t[0]}', status='undecided', detail=why, paths=0, name=t[0], cname=None)))
    R0 = report.Run('C19', tier, seed)     # only for known matching
    extra = []
    for o in sorted(obs, key=lambda o: o['oid']):
        ob = report.Ob(o['oid'], o['status'], level='finite-complete', backend='enumeration', detail=o.get('detail'), paths=o.get('paths', 0))
        if o['status'] == 'violated':
            k = R0.match_known(o['oid'], o.get('detail'))
            name, cname = o['name'], o['cname']
            value = elem.valid_value(table[name][1])
            mk = f"X.{cname}({value!r})" if value != '' else f"X.{cname}()"
            src = f'''import musicxml.xmlelement.xmlelement as X, musicxml.xmlelement.exceptions as XE, musicxml.exceptions as ME
doc = tuple(c for m in (XE, ME) for c in vars(m).values() if isinstance(c, type) and issubclass(c, Exception)) + (TypeError, ValueError)
bad = 0
for label, f in (('add_child(None)', lambda e: e.add_child(None)), ('remove(5)', lambda e: e.remove(5)), ('to_string(intelligent_choice=True)', lambda e: e.to_string(intelligent_choice=True)),
                 ('attribute', lambda e: setattr(e, 'zz_unknown_name', 1)), ('constructor keyword', lambda e: type(e)(zz_unknown=1)), ('read', lambda e: e.zz_unknown_name),
                 ('constructor huge int', lambda e: type(e)(10 ** 400)), ('value_ huge int', lambda e: setattr(e, 'value_', -10 ** 400))):
    try: f({mk})
    except doc: pass
    except AttributeError as ex:
        if label not in ('attribute', 'read'): print(label, 'AttributeError', ex); bad = 1
    except Exception as ex: print(label, type(ex).__name__, ex); bad = 1
print({o['detail']!r})
sys.exit(bad)
'''
            ob.replay = report.write_replay('C19', o['oid'], src, header=str(o.get('detail')))
            rc, out = report.run_replay(ob.replay)
            if rc != 1:
                ob.replay = None
            if k is not None:
                ob.status = 'known'
                ob.detail = k['what']
        extra.append(ob)
    prints, nie = static_scan(os.environ.get('VERIF_REPO', '/repo'))
    ob = report.Ob('C19/static/no-print', 'discharged' if not prints else 'violated', level='finite-complete', backend='AST scan', detail=None if not prints else f'library writes to stdout/stderr at {prints[:5]}', paths=1)
    if prints:
        ob.replay = report.write_replay('C19', 'C19/static/no-print', f"print({prints!r})\nsys.exit(1)\n")
    extra.append(ob)
    return run_prop('C19', tier, seed, extra_obs=extra,
                    extra_assumptions=[f'NotImplementedError raise sites in the library (reachability decided only by the proved/bounded layers): {nie}',
                                       'termination is not decided'],
                    explanation=f'C19: locked add_element exception obligations (all matcher states), {len(names)} element classes x wrong-argument calls of every public entry point, static print scan, bounded histories.')
