"""Guard: the repository's own test suite must pass on the INSTRUMENTED modules (all values concrete: every hook must fall
through to the built-in behaviour).  Run in a subprocess; result cached per source hash."""
import json
import os
import subprocess
import sys

from .histcheck import source_hash, VERIF

SCRIPT = r'''
import sys
from pydv import instr
instr.install()
import pytest
repo = sys.argv[1]
rc = pytest.main(['-q', '-p', 'no:cacheprovider', repo + '/musicxml/tests', '--rootdir=' + repo, '-x', '--timeout=900'])
bad = [m for m, d in instr.LOADED.items() if not d['roundtrip_ok']]
print('SUITEGUARD rc=%d roundtrip_bad=%r modules=%d' % (int(rc), bad, len(instr.LOADED)))
'''


def run():
    repo = os.environ.get('VERIF_REPO', '/repo')
    cdir = os.path.join(os.environ.get('VERIF_OUT') or VERIF, '.cache')
    os.makedirs(cdir, exist_ok=True)
    import hashlib
    here = os.path.dirname(os.path.abspath(__file__))
    key = hashlib.sha256((source_hash() + open(os.path.join(here, 'instr.py')).read() + open(os.path.join(here, 'engine.py')).read()).encode()).hexdigest()[:16]
    path = os.path.join(cdir, f'suiteguard-{key}.json')
    if os.path.exists(path):
        return json.load(open(path))
    env = dict(os.environ, PYTHONPATH=f'{VERIF}:{VERIF}/.deps:{repo}')
    r = subprocess.run([sys.executable, '-W', 'ignore', '-c', SCRIPT, repo], env=env, capture_output=True, text=True, cwd=repo, timeout=1800)
    line = [l for l in r.stdout.splitlines() if l.startswith('SUITEGUARD')]
    tail = [l for l in r.stdout.splitlines() if ' passed' in l or ' failed' in l]
    res = {'ok': bool(line) and 'rc=0 ' in line[0] and "roundtrip_bad=[]" in line[0], 'line': line[0] if line else r.stdout[-300:] + r.stderr[-300:], 'summary': tail[-1] if tail else ''}
    with open(path, 'w') as f:
        json.dump(res, f)
    return res
