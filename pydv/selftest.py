"""./check selftest -- seeded-fault self test: every seeded change under /verif/seeded is applied to a scratch worktree of /repo
(never to /repo itself), the checks named in its meta.json ('expect': {check id: exit code}) are run against it with
VERIF_REPO/VERIF_OUT, and the exit codes are compared.  Scratch worktrees are removed afterwards.  Slow (matcher seeds recompute
the sweeps): meant to be run from a snapshot (vp run -- ./check selftest)."""
import json
import os
import subprocess
import sys

from .report import VERIF


def main(tier='quick'):
    seeds = sorted(d for d in os.listdir(os.path.join(VERIF, 'seeded')) if os.path.exists(os.path.join(VERIF, 'seeded', d, 'meta.json')))
    bad = 0
    for s in seeds:
        meta = json.load(open(os.path.join(VERIF, 'seeded', s, 'meta.json')))
        expect = meta.get('expect') or {}
        if not expect:
            continue
        r = subprocess.run([os.path.join(VERIF, 'tools', 'run_seed.sh'), os.path.join(VERIF, 'seeded', s)] + sorted(expect), capture_output=True, text=True)
        for line in r.stdout.splitlines():
            parts = line.split()
            if len(parts) >= 3 and parts[2].startswith('exit='):
                got = int(parts[2][5:])
                want = expect.get(parts[1])
                ok = (got == want)
                print(f'{"ok  " if ok else "FAIL"} {s} {parts[1]} exit={got} expected={want}')
                bad += (not ok)
    print(f'selftest: {bad} mismatches')
    return 0 if bad == 0 else 3
