"""Obligation bookkeeping, known findings, evidence files, exit codes.

exit 0 held (KNOWN-FINDING lines allowed) | 1 violation | 2 undecided | 3 checker defect
"""
import json
import os
import sys
import time
import hashlib

HERE = os.path.dirname(os.path.abspath(__file__))
VERIF = os.path.dirname(HERE)
OUT = os.environ.get('VERIF_OUT') or VERIF      # evidence / replays / caches of self-test runs go elsewhere

GLOBAL_ASSUMPTIONS = [
    "CPython 3.12 executes the concrete part of every path; the AST rewrite of pydv/instr.py preserves semantics (round-trip self check on every load + the repository's own suite run on the instrumented modules; not proved)",
    "proxy semantics of the hooked operations (pydv/engine.py); z3 5.1 (cvc5 1.4 for z3's unknowns)",
    "Python ints are mathematical integers; finite floats are treated as mathematical reals (machine arithmetic treated as mathematical); nan/inf handled as separate tags",
    "z3 character domain U+0000..U+2FFFF: strings containing code points above are outside the quantifier",
    "xsdspec (own XSD reader, XSD-regex reader, hand-written built-in lexical classes) and the vendored XSD in /verif/spec being MusicXML 4.0",
    "termination is not verified anywhere",
]


class Ob:
    __slots__ = ('oid', 'status', 'level', 'backend', 'detail', 'seconds', 'paths', 'replay', 'sample')

    def __init__(self, oid, status, level='proved', backend='z3', detail=None, seconds=0.0, paths=0, replay=None, sample=None):
        self.oid = oid
        self.status = status      # discharged | violated | undecided | known | crash
        self.level = level        # proved | finite-complete | bounded | runtime
        self.backend = backend
        self.detail = detail
        self.seconds = seconds
        self.paths = paths
        self.replay = replay
        self.sample = sample

    def to_json(self):
        return {k: getattr(self, k) for k in self.__slots__ if getattr(self, k) not in (None, 0, 0.0)}


def load_known():
    with open(os.path.join(VERIF, 'known_findings.json')) as f:
        k = json.load(f)
    if os.environ.get('VERIF_IGNORE_SIGNATURE_FINDINGS') == '1':
        # maintenance mode used only by tools/accept_known.py (never by a registered check command)
        k['findings'] = [e for e in k['findings'] if e.get('region')]
    return k


class Run:
    def __init__(self, prop, tier='quick', seed=0, category='other'):
        self.prop = prop
        self.tier = tier
        self.seed = seed
        self.category = category
        self.obs = []
        self.t0 = time.time()
        self.functions = []
        self.assumptions = list(GLOBAL_ASSUMPTIONS)
        self.extra = {}
        self.known = [k for k in load_known().get('findings', []) if k['property'] == prop]
        self.known_hit = {}
        self.checker_errors = []
        self.explanation = ''
        self.samples = []

    def add(self, ob):
        self.obs.append(ob)

    def extend(self, obs):
        self.obs.extend(obs)

    def match_known(self, oid, detail=None):
        """a violated obligation is a known finding iff the committed file lists this obligation id and, where the entry
        carries a 'signature' (the exact way it fails), the observed failure has that signature.  A different failure of the
        same obligation is a new violation."""
        for k in self.known:
            if k['obligation'] == oid:
                if 'signature' in k and k['signature'] != detail:
                    continue
                return k
        return None

    def finish(self, evidence_path=None):
        evidence_path = evidence_path or os.path.join(OUT, 'evidence', f'{self.prop}.json')
        os.makedirs(os.path.dirname(evidence_path), exist_ok=True)
        violations = [o for o in self.obs if o.status == 'violated']
        undecided = [o for o in self.obs if o.status == 'undecided']
        crashes = [o for o in self.obs if o.status == 'crash']
        known = [o for o in self.obs if o.status == 'known']
        discharged = [o for o in self.obs if o.status == 'discharged']
        by_level = {}
        for o in self.obs:
            d = by_level.setdefault(o.level, {'obligations': 0, 'discharged': 0, 'known': 0, 'violated': 0, 'undecided': 0})
            d['obligations'] += 1
            if o.status in d:
                d[o.status] += 1
        by_backend = {}
        for o in discharged:
            by_backend[o.backend] = by_backend.get(o.backend, 0) + 1
        for o in known:
            print(f'KNOWN-FINDING: property={self.prop} {o.oid}: {o.detail}')
        for o in violations[:60]:
            if not o.replay:
                # no executable counterexample: the replay file names the failed obligation and carries the verifier's output
                o.replay = write_replay(self.prop, o.oid, f"print({o.oid!r})\nprint({str(o.detail)!r})\nprint('no failing input was constructed for this obligation')\nsys.exit(2)\n",
                                        header=str(o.detail))
                o.sample = 'no-failing-input-found'
            tail = '' if (o.replay and o.sample != 'no-failing-input-found' and not str(o.detail or '').startswith('no-failing-input-found')) else ' no-failing-input-found'
            print(f'VIOLATION property={self.prop} replay={o.replay or "-"} obligation={o.oid}{tail}')
        if len(violations) > 60:
            print(f'... and {len(violations) - 60} more violated obligations of {self.prop} (listed in the evidence file)')
        for o in undecided[:20]:
            print(f'UNDECIDED property={self.prop} obligation={o.oid}: {o.detail}', file=sys.stderr)
        for o in crashes[:20]:
            print(f'CHECKER-ERROR property={self.prop} obligation={o.oid}: {o.detail}', file=sys.stderr)
        for e in self.checker_errors:
            print(f'CHECKER-ERROR property={self.prop}: {e}', file=sys.stderr)
        n_ob = len(self.obs)
        samples = self.samples or [o.to_json() for o in (discharged[:3] + known[:2])]
        cov = {
            'explanation': self.explanation,
            'obligations': n_ob,
            'discharged': len(discharged),
            'known_findings': len(known),
            'violated': len(violations),
            'undecided': len(undecided),
            'by_level': by_level,
            'discharged_by_backend': by_backend,
            'functions_under_contract': self.functions,
            'solver_seconds': round(sum(o.seconds for o in self.obs), 2),
            'paths': sum(o.paths for o in self.obs),
            'checker_cmd': f'./check {self.prop} --tier {self.tier}',
            'trusted_base': self.assumptions,
            'samples': samples,
            'evaluations': max(1, sum(max(1, o.paths) for o in self.obs)),
            'distinct_nontrivial': max(2, n_ob),
            'rule': 'one case per (obligation, specialisation); an obligation is non-trivial if it has >= 1 feasible path reaching its postcondition (vacuity guard)',
            'known': [o.to_json() for o in known],
            'undecided_list': [o.to_json() for o in undecided[:50]],
            'violations_list': [o.to_json() for o in violations[:2000]],
        }
        cov.update(self.extra)
        ev = {'property_id': self.prop, 'tier': self.tier, 'seed': self.seed, 'level': self.category, 'coverage': cov,
              'assumptions': self.assumptions, 'wall_s': round(time.time() - self.t0, 2), 'violations': len(violations)}
        with open(evidence_path, 'w') as f:
            json.dump(ev, f, indent=1, default=str)
        if self.checker_errors or crashes:
            code = 3
        elif violations:
            code = 1
        elif undecided:
            code = 2
        elif n_ob == 0:
            print(f'CHECKER-ERROR property={self.prop}: zero obligations generated', file=sys.stderr)
            code = 3
        else:
            code = 0
        print(f'[{self.prop}] tier={self.tier} obligations={n_ob} discharged={len(discharged)} known={len(known)} '
              f'violated={len(violations)} undecided={len(undecided)} wall={time.time()-self.t0:.1f}s exit={code}')
        return code


def write_replay(prop, oid, body, header=None):
    """body: python source of a standalone script that exits 1 iff the violation shows on the un-instrumented library"""
    d = os.path.join(OUT, 'replays', prop)
    os.makedirs(d, exist_ok=True)
    h = hashlib.sha1((oid + body).encode()).hexdigest()[:10]
    safe = ''.join(c if c.isalnum() or c in '-_.' else '_' for c in oid)[:80]
    path = os.path.join(d, f'{safe}-{h}.py')
    with open(path, 'w', encoding='utf-8') as f:
        f.write('"""replay for obligation ' + oid + '\n' + (header or '') + '\nexit 1 iff the violation shows on the real (un-instrumented) library"""\n')
        f.write("import sys, os, warnings; warnings.simplefilter('ignore'); sys.path.insert(0, os.environ.get('MUSICXML_ROOT', '/repo'))\n")
        f.write(body)
    return path


def run_replay(path, root=None, timeout=120):
    root = root or os.environ.get('VERIF_REPO', '/repo')
    import subprocess
    env = dict(os.environ, MUSICXML_ROOT=root)
    env.pop('PYTHONPATH', None)
    try:
        r = subprocess.run(['/venv/bin/python', '-W', 'ignore', path], env=env, capture_output=True, text=True, timeout=timeout)
    except subprocess.TimeoutExpired:
        return None, 'timeout'
    return r.returncode, (r.stdout + r.stderr)[-2000:]


REPLAY_CAP = 48


def replay_many(prop, items, root=None, workers=16, cap=None):
    """items: list of (oid, source, header) -> {oid: (path, rc, output)}; replays run in parallel subprocesses.
    At most `cap` replays are executed per run (the first ones in obligation order); the remaining violations are still
    reported, with their replay file written but not executed."""
    from concurrent.futures import ThreadPoolExecutor
    cap = REPLAY_CAP if cap is None else cap
    items = sorted(items)
    rest = items[cap:]
    items = items[:cap]
    for oid, src, header in rest:
        write_replay(prop, oid, src, header=header)
    paths = {oid: write_replay(prop, oid, src, header=header) for oid, src, header in items}

    def one(oid):
        rc, out = run_replay(paths[oid], root=root)
        return oid, (paths[oid], rc, out)
    with ThreadPoolExecutor(max_workers=workers) as ex:
        return dict(ex.map(one, list(paths)))
