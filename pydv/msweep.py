"""Deductive obligations on the real matcher code, per complex type with a fixed-shape, duplicate-free content model.

A  add_element contract, from EVERY flag state and leaf occupancy (no invariant beyond leaf typing I1):
     normal return  : the returned leaf has the child's name; exactly that leaf grew by exactly the child, at its end; the
                      child points to it; len <= maxOccurs                                            [C06, C01-leaf-typing]
     exception      : no leaf list changed, the child is not attached, type in the documented families [C10, C19]
B  final check sound: get_required_element_names() falsy  =>  the leaf counts form a word of the schema's content model
     under the inductive invariant Inv_T                                                               [C01]
C  Inv_T candidates: Init |= Inv, add_element preserves Inv (Houdini pruning)                          [auxiliary]
D  accepted  => Completable(counts')                                                                   [C07]   under Inv_T
E  rejected (structural, forward=None) => not Completable(counts + a)                                  [C12]   under Inv_T
Results are cached per (source hash, tier).
"""
import copy
import hashlib
import json
import multiprocessing as mp
import os
import sys
import time
import traceback

import z3

from . import engine as E
from . import matcher as M
from . import xsdspec, hist
from .histcheck import source_hash, repo_hash, type_elements, VERIF


def setup_lib():
    import musicxml.xmlelement.xmlchildcontainer as cc
    import musicxml.xmlelement.xmlelement as X
    from musicxml.xsd.xsdelement import XSDElement
    from musicxml.xsd.xsdindicator import XSDSequence, XSDChoice, XSDGroup
    M.install_flags(cc.XMLChildContainer)
    wrapped = M.install_summaries(cc)
    M.install_get_leaves_contract(cc.XMLChildContainer)
    return cc, X, (XSDElement, XSDSequence, XSDChoice, XSDGroup), wrapped


# ---------------------------------------------------------------------------------------------------------------------
# invariant candidates (templates instantiated per node); each returns list of (id, z3 formula over the state)

def nonempty(st, n):
    return z3.Or([st.cnt[l._dv_idx] > 0 for l in n._raw_traverse() if l._dv_idx in st.cnt] + [z3.BoolVal(False)])


def cands(st):
    out = []
    for n in st.nodes:
        i = n._dv_idx
        k = st.kind[i]
        if k == 'C':
            cc = M.flag_term(st, i, '_chosen_child')
            for j, ch in enumerate(n._children):
                out.append((f'I3a/{i}/{j}', z3.Implies(nonempty(st, ch), cc == j + 1)))          # occupied branch is the chosen one
            out.append((f'I3b/{i}', z3.Implies(cc == 0, z3.Not(nonempty(st, n)))))               # uncommitted => empty below
            for j, ch in enumerate(n._children):
                if st.kind[ch._dv_idx] == 'E':
                    out.append((f'I3c/{i}/{j}', z3.Implies(cc == j + 1, st.cnt[ch._dv_idx] > 0)))  # committed to a leaf alternative => that leaf is occupied
        rf = M.flag_term(st, i, '_requirements_fulfilled')
        if rf is not None:
            if k in ('S', 'G'):
                out.append((f'I5a/{i}', rf != 2))                                              # only leaves and choices are ever flagged missing
            if k == 'E':
                out.append((f'I6a/{i}', z3.Implies(rf == 2, st.cnt[i] < n.min_occurrences)))  # flagged missing => really under minOccurs
                out.append((f'I6b/{i}', z3.Implies(rf == 1, st.cnt[i] >= min(n.min_occurrences, 1))))
            if k == 'C':
                cc_ = M.flag_term(st, i, '_chosen_child')
                if cc_ is not None:
                    out.append((f'I7a/{i}', z3.Implies(rf == 2, cc_ == 0)))                     # flagged missing => uncommitted
                    out.append((f'I7b/{i}', z3.Implies(cc_ != 0, rf == 1)))                    # committed => fulfilled
                    if n.min_occurrences != 0:
                        out.append((f'I7c/{i}', z3.Implies(rf == 1, cc_ != 0)))                # a required choice counts as fulfilled only when committed
                        out.append((f'I7d/{i}', z3.Implies(rf == 1, z3.Or(cc_ != 0, nonempty(st, n)))))
        if k == 'S':
            fv = M.flag_term(st, i, '_force_validate')
            out.append((f'I4a/{i}', z3.Implies(nonempty(st, n), fv == 1)))                        # occupied below => force-validated
            # upward closure: a force-validated sequence has force-validated sequence ancestors
            anc = n._parent
            crossed_choice = False
            while anc is not None and st.kind[anc._dv_idx] != 'S':
                if st.kind[anc._dv_idx] == 'C':
                    crossed_choice = True
                anc = anc._parent
            if anc is not None:
                fva = M.flag_term(st, anc._dv_idx, '_force_validate')
                out.append((f'I4{"c" if crossed_choice else "d"}/{i}', z3.Implies(fv == 1, fva == 1)))
            # weaker: only the leaves directly below
            direct = [c for c in n._children if st.kind[c._dv_idx] == 'E']
            if direct:
                out.append((f'I4b/{i}', z3.Implies(z3.Or([st.cnt[c._dv_idx] > 0 for c in direct]), fv == 1)))
    return out


def eval_cands_post(st_pre, st_nodes, cnt_post, flag_post):
    """candidate formulas over the post-state (terms for counts and flags after the call)"""
    class P:
        pass
    p = P()
    p.nodes = st_nodes
    p.kind = st_pre.kind
    p.cnt = cnt_post
    p.fl = {}
    for (i, name), se in st_pre.fl.items():
        p.fl[(i, name)] = flag_post.get((i, name))
    return cands(p)


class _T:
    def __init__(self, e):
        self.e = e


def post_terms(st):
    """counts and flag index terms after the call, as z3 terms"""
    cnt = {}
    for l in st.leaves:
        sl = l.content._xml_elements
        cnt[l._dv_idx] = st.cnt[l._dv_idx] + len(sl.suffix) if isinstance(sl, E.SymList) else z3.IntVal(len(sl))
    fl = {}
    for n in st.nodes:
        i = n._dv_idx
        for name in M.FLAGS:
            if st.fl[(i, name)] is None:
                v = n.__dict__.get('_fl' + name)
                if v is None:
                    fl[(i, name)] = None
                else:
                    fl[(i, name)] = _T(z3.IntVal(-7))      # a flag slot outside its typing domain was written: never equal to a domain index
                continue
            dom = st.fl[(i, name)].domain
            v = n.__dict__.get('_fl' + name)
            if isinstance(v, E.SymEnum):
                # re-index into the pre-state's domain
                t = z3.IntVal(-7)
                for a, d in enumerate(v.domain):
                    idx = next((b for b, dd in enumerate(dom) if dd is d), -7)
                    t = z3.If(v.e == a, idx, t)
                fl[(i, name)] = _T(z3.simplify(t))
            else:
                idx = next((b for b, dd in enumerate(dom) if dd is v), -7)
                fl[(i, name)] = _T(z3.IntVal(idx))
    return cnt, fl


class _Alarm(BaseException):
    pass


def task(args):
    tkey, name, tier = args
    t_start = time.time()
    import signal

    def on_alarm(sig, frm):
        raise _Alarm()
    signal.signal(signal.SIGALRM, on_alarm)
    signal.alarm(150 if tier == 'quick' else 2400)        # hard wall-clock budget per type
    try:
        try:
            return _task(tkey, name, tier)
        finally:
            signal.alarm(0)
    except _Alarm:
        return dict(tkey=tkey, name=name, obligations=[dict(oid=f'M/budget/{tkey}', props=['C01', 'C06', 'C07', 'C10', 'C12', 'C19'], status='undecided',
                                                           detail='type exceeds the wall-clock budget of the proved layer in this tier')], seconds=time.time() - t_start)
    except BaseException as ex:
        return dict(tkey=tkey, name=name, obligations=[dict(oid=f'M/crash/{tkey}', props=['C01', 'C06', 'C07', 'C10', 'C12', 'C19'], status='crash',
                                                           detail=traceback.format_exc()[-800:])], seconds=time.time() - t_start)


def _task(tkey, name, tier):
    cc, X, mods, wrapped = setup_lib()
    lib = hist.Lib()
    model = xsdspec.MODELS[tkey]
    alpha = xsdspec.alphabet(model)
    obs = []
    t_start = time.time()
    budget = 40 if tier == 'quick' else 600
    qt = 30000 if tier == 'quick' else 120000
    documented = {c.__name__ for c in lib.documented}
    structural = {c.__name__ for c in lib.structural}

    def fresh_container():
        e = lib.fresh(name)
        return e, e._child_container_tree

    # ---------------------------------------------------------------- Houdini: which candidates are inductive?
    # round 0: candidate ids from a throw-away state
    alive = None
    rounds = 0
    paths_total = 0

    rehoming_calls = [0]

    def explore_add(a, forward, inv_ids, record, ic=False):
        """explores add_element(child(a), forward, intelligent_choice=ic) from all states satisfying Inv(inv_ids); with ic=True the
        re-homing helper _check_choices_intelligently is replaced by the assumed contract 'finds nothing (returns None)'"""
        def harness():
            e, c = fresh_container()
            st = M.mkstate(mods, c)
            cs = dict(cands(st))
            for cid in (inv_ids or ()):
                if cid in cs:
                    E.assume(cs[cid])
            el = lib.child(a) if a in lib.table else lib.child(alpha[0])
            if a not in lib.table:
                pass
            real_helper = cc.XMLChildContainer._check_choices_intelligently
            if ic:
                def helper_stub(self, xml_element=None):
                    rehoming_calls[0] += 1
                    return None
                cc.XMLChildContainer._check_choices_intelligently = helper_stub
            try:
                leaf = c.add_element(el, forward, ic)
                out = ('ok', leaf)
            except Exception as ex:
                out = ('exc', type(ex).__name__)
            finally:
                cc.XMLChildContainer._check_choices_intelligently = real_helper
            record(st, c, el, out)
            return out[0]
        return E.explore(harness, maxpaths=4000, timeout=budget, query_timeout_ms=qt)

    # ---- family A: contract of add_element from every state (no invariant)
    for a in alpha + ['@foreign']:
        for fwd in (None, 0, 1, 'ic'):
            ic_mode = (fwd == 'ic')
            if ic_mode:
                fwd = None
            res = {'ok': True, 'detail': None, 'exc_types': set(), 'npaths': 0, 'post_ok': True, 'c19': None}
            real_a = a if a != '@foreign' else next(n for n in sorted(lib.table) if n not in alpha)

            def rec(st, c, el, out):
                res['npaths'] += 1
                grown = [(l, l.content._xml_elements.suffix) for l in st.leaves if l.content._xml_elements.suffix]
                # leaves created by duplicate() during the call (concrete lists)
                root = c
                while root.get_parent() is not None:
                    root = root.get_parent()
                known_ids = {id(l) for l in st.leaves}
                for l in root._raw_traverse():
                    if id(l) not in known_ids and M.kind(l, mods) == 'E' and len(l.content._xml_elements):
                        grown.append((l, list(l.content._xml_elements)))
                if out[0] == 'ok':
                    leaf = out[1]
                    good = (len(grown) == 1 and grown[0][0] is leaf and len(grown[0][1]) == 1 and grown[0][1][0] is el
                            and leaf.content.name == el.name and el.__dict__.get('parent_xsd_element') is leaf.content)
                    if good and leaf.max_occurrences != 'unbounded' and getattr(leaf, '_dv_idx', None) in st.cnt:
                        r, m = E.valid(st.cnt[leaf._dv_idx] + 1 <= leaf.max_occurrences)
                        good = (r == 'valid')
                    if not good and res['ok']:
                        res['ok'] = False
                        res['detail'] = f'add_element({el.name}, forward={fwd}) returned normally but leaf lists changed as {[(g[0].content.name, len(g[1])) for g in grown]}'
                        res['model'] = _model_state(st)
                else:
                    if grown or el.__dict__.get('parent_xsd_element') is not None:
                        if res['ok']:
                            res['ok'] = False
                            res['detail'] = f'add_element({el.name}, forward={fwd}) raised {out[1]} but the child stayed attached to {[(g[0].content.name) for g in grown]}'
                            res['model'] = _model_state(st)
                    res['exc_types'].add(out[1])
                    if out[1] not in documented and res['c19'] is None:
                        res['c19'] = (out[1], _model_state(st))
            results = explore_add(real_a, fwd, None, rec, ic=ic_mode)
            paths_total += len(results)
            uns = [r.detail for r in results if r.status == 'unsupported']
            oid = f'M/add-contract/{tkey}/{a}/fwd={fwd}' + ('/ic=True' if ic_mode else '')
            if not uns and res['npaths'] == 0:
                uns = ['no feasible path reached the postcondition (vacuous)']
            if uns:
                obs.append(dict(oid=oid, props=['C06', 'C10'], status='undecided', detail=uns[0], paths=len(results)))
                obs.append(dict(oid=oid.replace('add-contract', 'add-exceptions'), props=['C19'], status='undecided', detail=uns[0], paths=len(results)))
            else:
                obs.append(dict(oid=oid, props=['C06', 'C10'], status='discharged' if res['ok'] else 'violated', detail=res['detail'], paths=res['npaths'],
                                model=res.get('model'), child=real_a, forward=fwd))
                obs.append(dict(oid=oid.replace('add-contract', 'add-exceptions'), props=['C19'], status='discharged' if res['c19'] is None else 'violated',
                                detail=None if res['c19'] is None else f'add_element({real_a}, forward={fwd}) raises undocumented {res["c19"][0]}',
                                paths=res['npaths'], model=None if res['c19'] is None else res['c19'][1], child=real_a, forward=fwd))
        if time.time() - t_start > budget * 2:
            obs.append(dict(oid=f'M/add-contract/{tkey}/budget', props=['C06', 'C10', 'C19'], status='undecided', detail='type budget exceeded'))
            break

    # ---- lemma L: the truthiness contract by which get_leaves(func) is replaced in the proved layer, checked on the REAL get_leaves of
    #      this type: truthy  <=>  some leaf has func(leaf) not None.  All subsets of leaves for <= 10 leaves, else all subsets of size <= 2
    #      and their complements (bounded).
    import itertools as _it
    orig_gl = getattr(cc.XMLChildContainer.get_leaves, '_dv_orig', cc.XMLChildContainer.get_leaves)
    e0, c0 = fresh_container()
    leaves0 = [n for n in c0._raw_traverse() if M.kind(n, mods) == 'E']
    subsets = []
    if len(leaves0) <= 10:
        for k in range(len(leaves0) + 1):
            subsets.extend(_it.combinations(range(len(leaves0)), k))
        lemma_level = 'finite-complete'
    else:
        base = [()] + [(i,) for i in range(len(leaves0))] + list(_it.combinations(range(len(leaves0)), 2))
        subsets = base + [tuple(j for j in range(len(leaves0)) if j not in b) for b in base]
        lemma_level = 'bounded'
    bad_l = None
    for sub in subsets:
        chosen = {id(leaves0[i]) for i in sub}
        got = orig_gl(c0, lambda leaf: 'X' + leaf.content.name if id(leaf) in chosen else None)
        if bool(got) != bool(sub):
            bad_l = f'get_leaves truthiness {bool(got)} for marked leaves {[leaves0[i].content.name for i in sub]}'
            break
    obs.append(dict(oid=f'M/lemma-get-leaves/{tkey}', props=['C01', 'C02'], status='discharged' if bad_l is None else 'violated', detail=bad_l, paths=len(subsets), level=lemma_level))
    # ---- family R: contract of XMLElement.remove(child) on a checked element, from every flag state:
    #      exactly the child leaves its leaf (and the insertion list), every other leaf list is unchanged, the child is detached
    for li in range(len(alpha)):
        resR = {'ok': True, 'detail': None, 'n': 0, 'model': None, 'exc': None}

        def harness_r(li=li):
            e, c = fresh_container()
            st = M.mkstate(mods, c)
            leaf = st.leaves[li]
            ch = lib.child(leaf.content.name)
            other = lib.child(leaf.content.name)
            leaf.content._xml_elements.suffix.append(ch)
            ch.parent_xsd_element = leaf.content
            ch._parent = e
            e._unordered_children = [other, ch]
            try:
                e.remove(ch)
                out = 'ok'
            except Exception as ex:
                out = 'exc:' + type(ex).__name__
            resR['n'] += 1
            grown = [(l.content.name, len(l.content._xml_elements.suffix)) for l in st.leaves if l.content._xml_elements.suffix]
            good = (out == 'ok' and not grown and e._unordered_children == [other] and ch.__dict__.get('parent_xsd_element') is None and ch._parent is None)
            if not good and resR['ok']:
                resR['ok'] = False
                resR['detail'] = f'remove({leaf.content.name}) -> {out}; leaf lists still holding designated children: {grown}; insertion list {len(e._unordered_children)}'
                resR['model'] = _model_state(st)
            return out
        rs = E.explore(harness_r, maxpaths=2000, timeout=budget, query_timeout_ms=qt)
        paths_total += len(rs)
        uns = [r.detail for r in rs if r.status == 'unsupported']
        if not uns and resR['n'] == 0:
            uns = ['no feasible path reached the postcondition (vacuous)']
        a_ = alpha[li] if li < len(alpha) else str(li)
        obs.append(dict(oid=f'M/remove-contract/{tkey}/{li}', props=['C06', 'C11', 'C19'], status='undecided' if uns else ('discharged' if resR['ok'] else 'violated'),
                        detail=(uns[0] if uns else resR['detail']), paths=resR['n'], model=resR['model']))
    if not (M.dup_free(model) and M.fixed_shape(model)):
        for o in obs:
            o['shape_bound'] = not M.fixed_shape(model)
        return dict(tkey=tkey, name=name, obligations=obs, seconds=round(time.time() - t_start, 1), paths=paths_total, wrapped=wrapped, invariant=None, basic=True)
    if any(o['status'] == 'undecided' for o in obs):
        # over budget already: the type is out of reach of the proved layer in this tier
        return dict(tkey=tkey, name=name, obligations=obs, seconds=round(time.time() - t_start, 1), paths=paths_total, wrapped=wrapped, invariant=None)
    # ---------------------------------------------------------------- invariant (Houdini) and the clauses that need it
    by_name = {}

    def cnt_by_name(st, post=None):
        d = {}
        for l in st.leaves:
            d[l.content.name] = (post or st.cnt)[l._dv_idx]
        return d

    # candidate ids
    ids_box = []

    def h0():
        e, c = fresh_container()
        st = M.mkstate(mods, c)
        ids_box.append([cid for cid, _ in cands(st)])
        return 0
    E.explore(h0, maxpaths=5)
    alive = list(ids_box[0]) if ids_box else []
    all_cands = list(alive)
    # Init |= candidate (fresh container: all counts 0, all flags None)
    def h_init():
        e, c = fresh_container()
        st = M.mkstate(mods, c)
        for v in st.cnt.values():
            E.assume(v == 0)
        for (i, nm), se in st.fl.items():
            if se is not None:
                E.assume(se.e == 0)
        bad = []
        for cid, f in cands(st):
            r, _ = E.valid(f)
            if r != 'valid':
                bad.append(cid)
        return bad
    r0 = E.explore(h_init, maxpaths=5)
    for r in r0:
        if r.status == 'ok':
            alive = [c for c in alive if c not in r.value]
    houdini_undecided = None
    for rnd in range(8):
        dropped = set()

        def rec_inv(st, c, el, out):
            cnt_post, fl_post = post_terms(st)
            for cid, f in eval_cands_post(st, st.nodes, cnt_post, fl_post):
                if cid in alive and cid not in dropped:
                    r, _ = E.valid(f)
                    if r != 'valid':
                        dropped.add(cid)
        for a in alpha:
            for fwd in (None, 0):
                rs = explore_add(a, fwd, alive, rec_inv)
                paths_total += len(rs)
                if any(r.status == 'unsupported' for r in rs):
                    houdini_undecided = [r.detail for r in rs if r.status == 'unsupported'][0]
        # removal of a designated child from any leaf
        for li in range(len(alpha)):
            def harness_rm(li=li):
                e, c = fresh_container()
                st = M.mkstate(mods, c)
                leaf = st.leaves[li]
                ch = lib.child(leaf.content.name)
                leaf.content._xml_elements.suffix.append(ch)
                ch.parent_xsd_element = leaf.content
                ch._parent = e
                e._unordered_children = [ch]
                # the pre-state INCLUDING the designated child satisfies the invariant
                cnt_pre = {l._dv_idx: st.cnt[l._dv_idx] + (1 if l is leaf else 0) for l in st.leaves}
                if leaf.max_occurrences != 'unbounded':
                    E.assume(cnt_pre[leaf._dv_idx] <= leaf.max_occurrences)
                pre = dict(eval_cands_post(st, st.nodes, cnt_pre, {k: (None if v is None else _T(v.e)) for k, v in st.fl.items()}))
                for cid in alive:
                    if cid in pre:
                        E.assume(pre[cid])
                try:
                    e.remove(ch)
                    out = 'ok'
                except Exception as ex:
                    out = 'exc:' + type(ex).__name__
                cnt_post, fl_post = post_terms(st)
                for cid, f in eval_cands_post(st, st.nodes, cnt_post, fl_post):
                    if cid in alive and cid not in dropped:
                        r, _ = E.valid(f)
                        if r != 'valid':
                            dropped.add(cid)
                return out
            rs = E.explore(harness_rm, maxpaths=2000, timeout=budget, query_timeout_ms=qt)
            paths_total += len(rs)
            if any(r.status == 'unsupported' for r in rs):
                houdini_undecided = [r.detail for r in rs if r.status == 'unsupported'][0]
        if not dropped:
            break
        alive = [c for c in alive if c not in dropped]
    inv_note = dict(candidates=len(all_cands), surviving=sorted(alive), rounds=rnd + 1, undecided=houdini_undecided)

    # ---- B: final check sound / complete under Inv
    resB = {'sound': True, 'complete': True, 'detail': None, 'n': 0, 'model': None, 'detail_c': None, 'model_c': None}

    def harness_final():
        e, c = fresh_container()
        st = M.mkstate(mods, c)
        cs = dict(cands(st))
        for cid in alive:
            if cid in cs:
                E.assume(cs[cid])
        try:
            req = c.get_required_element_names(False)
            missing = E.truth(req)
            out = 'required' if missing else 'complete'
        except Exception as ex:
            out = 'exc:' + type(ex).__name__
        resB['n'] += 1
        cn = cnt_by_name(st)
        if out == 'complete':
            r, m = E.valid(M.valid_f(model, cn))
            if r != 'valid' and resB['sound']:
                resB['sound'] = False if r == 'invalid' else None
                resB['detail'] = 'final check passes although the children do not form a word of the content model' if r == 'invalid' else 'solver unknown'
                resB['model'] = _model_state(st) if r == 'invalid' else None
        elif out == 'required':
            r, m = E.valid(z3.Not(M.valid_f(model, cn)))
            if r != 'valid' and resB['complete']:
                resB['complete'] = False if r == 'invalid' else None
                resB['detail_c'] = 'final check reports missing children although the children form a word of the content model' if r == 'invalid' else 'solver unknown'
                resB['model_c'] = _model_state(st) if r == 'invalid' else None
        else:
            resB['sound'] = False
            resB['detail'] = f'final check raises {out}'
            resB['model'] = _model_state(st)
        return out
    rs = E.explore(harness_final, maxpaths=4000, timeout=budget, query_timeout_ms=qt)
    paths_total += len(rs)
    uns = [r.detail for r in rs if r.status == 'unsupported']
    if not uns and resB['n'] == 0:
        uns = ['no feasible path reached the postcondition (vacuous)']
    for key, prop, det, mod in (('sound', 'C01', 'detail', 'model'), ('complete', 'C02', 'detail_c', 'model_c')):
        st_ = 'undecided' if (uns or resB[key] is None) else ('discharged' if resB[key] else 'violated')
        obs.append(dict(oid=f'M/final-check-{key}/{tkey}', props=[prop], status=st_, detail=(uns[0] if uns else resB[det]), paths=resB['n'], model=resB[mod],
                        needs_inv=True))

    # ---- D / E: accept => completable, reject => not completable (forward None, intelligent_choice False)
    for a in alpha:
        resD = {'D': True, 'E': True, 'dD': None, 'dE': None, 'mD': None, 'mE': None, 'n': 0}

        def rec_de(st, c, el, out):
            resD['n'] += 1
            cnt_post, _ = post_terms(st)
            if out[0] == 'ok':
                r, m = E.valid(M.completable_f(model, cnt_by_name(st, cnt_post)))
                if r != 'valid' and resD['D']:
                    resD['D'] = False if r == 'invalid' else None
                    resD['dD'] = f'{a} accepted although the children can no longer be completed to a valid sequence' if r == 'invalid' else 'solver unknown'
                    resD['mD'] = _model_state(st) if r == 'invalid' else None
            elif out[1] in structural:
                cn = cnt_by_name(st)
                cn[a] = cn[a] + 1
                r, m = E.valid(z3.Not(M.completable_f(model, cn)))
                if r != 'valid' and resD['E']:
                    resD['E'] = False if r == 'invalid' else None
                    resD['dE'] = f'{a} rejected ({out[1]}) although it could still be arranged with the children present' if r == 'invalid' else 'solver unknown'
                    resD['mE'] = _model_state(st) if r == 'invalid' else None
        rs = explore_add(a, None, alive, rec_de)
        paths_total += len(rs)
        uns = [r.detail for r in rs if r.status == 'unsupported']
        if not uns and resD['n'] == 0:
            uns = ['no feasible path reached the postcondition (vacuous)']
        for key, prop, dk, mk_ in (('D', 'C07', 'dD', 'mD'), ('E', 'C12', 'dE', 'mE')):
            st_ = 'undecided' if (uns or resD[key] is None) else ('discharged' if resD[key] else 'violated')
            obs.append(dict(oid=f'M/{"accept-completable" if key == "D" else "reject-uncompletable"}/{tkey}/{a}', props=[prop], status=st_,
                            detail=(uns[0] if uns else resD[dk]), paths=resD['n'], model=resD[mk_], child=a, forward=None, needs_inv=True))
    # ---- F: children supplied in document order: a viable next child is accepted (C02), under Inv
    order = M.names_of(model)
    for a in alpha:
        resF = {'ok': True, 'd': None, 'm': None, 'n': 0, 'feasible': 0}

        def harness_f(a=a):
            e, c = fresh_container()
            st = M.mkstate(mods, c)
            cs = dict(cands(st))
            for cid in alive:
                if cid in cs:
                    E.assume(cs[cid])
            cn = cnt_by_name(st)
            for b in order[order.index(a) + 1:]:
                E.assume(cn[b] == 0)                      # nothing after a's position yet: document order
            cn2 = dict(cn)
            cn2[a] = cn[a] + 1
            E.assume(M.viable_after_add_f(model, cn2, a))  # w.a is a viable prefix of the content model
            resF['feasible'] += 1
            el = lib.child(a)
            try:
                c.add_element(el, None, False)
                out = 'ok'
            except Exception as ex:
                out = type(ex).__name__
            resF['n'] += 1
            if out != 'ok' and resF['ok']:
                resF['ok'] = False
                resF['d'] = f'{a} supplied in document order as a viable next child is rejected ({out})'
                resF['m'] = _model_state(st)
            return out
        rs = E.explore(harness_f, maxpaths=4000, timeout=budget, query_timeout_ms=qt)
        paths_total += len(rs)
        uns = [r.detail for r in rs if r.status == 'unsupported']
        st_ = 'undecided' if (uns or resF['n'] == 0) else ('discharged' if resF['ok'] else 'violated')
        obs.append(dict(oid=f'M/accept-in-order/{tkey}/{a}', props=['C02'], status=st_, detail=(uns[0] if uns else (resF['d'] or ('no feasible in-order pre-state (vacuous)' if resF['n'] == 0 else None))),
                        paths=resF['n'], model=resF['m'], child=a, needs_inv=True))
    return dict(tkey=tkey, name=name, obligations=obs, seconds=round(time.time() - t_start, 1), paths=paths_total, wrapped=wrapped, invariant=inv_note)


def _model_state(st):
    m = E.model()
    if m is None:
        return None
    out = {'counts': {}, 'flags': {}}
    for l in st.leaves:
        out['counts'][l.content.name] = m.eval(st.cnt[l._dv_idx], model_completion=True).as_long()
    for (i, name), se in st.fl.items():
        if se is not None:
            v = se.domain[m.eval(se.e, model_completion=True).as_long()]
            out['flags'][f'{i}{name}'] = (v if isinstance(v, (bool, type(None))) else f'child#{st.nodes[i]._children.index(v)}')
    return out


def eligible():
    out = []
    for t, n in sorted(type_elements().items()):
        r = xsdspec.MODELS[t]
        if M.dup_free(r) and M.fixed_shape(r):
            out.append((t, n))
    return out


def eligible_basic():
    """types outside the fully proved layer: repeated names and/or repeated groups.  Families A and R only, and for repeated
    groups only from pre-states of the TEMPLATE shape (no duplicate instance yet) -- labelled bounded-shape"""
    full = {t for t, _ in eligible()}
    return [(t, n) for t, n in sorted(type_elements().items()) if t not in full]


def canary(args=None):
    """the engine must REFUTE a deliberately false contract ('add_element never changes a leaf list') and must find an exception path
    for a deliberately wrong exception clause: guards against an exploration that silently generates no obligations"""
    cc, X, mods, wrapped = setup_lib()
    lib = hist.Lib()
    seen = {'grew': False, 'raised': False, 'paths': 0}

    def harness():
        e = lib.fresh('pitch')
        c = e._child_container_tree
        st = M.mkstate(mods, c)
        el = lib.child('step')
        try:
            c.add_element(el, None, False)
            if any(l.content._xml_elements.suffix for l in st.leaves):
                seen['grew'] = True
        except Exception:
            seen['raised'] = True
        seen['paths'] += 1
        return 0
    E.explore(harness, maxpaths=200, timeout=60)
    return seen['grew'] and seen['raised'] and seen['paths'] >= 2


def sweep(tier='quick', force=False, only=None):
    cdir = os.path.join(os.environ.get('VERIF_OUT') or VERIF, '.cache')
    os.makedirs(cdir, exist_ok=True)
    h = hashlib.sha256()
    h.update(repo_hash().encode())
    for f in ('msweep.py', 'matcher.py', 'engine.py', 'instr.py', 'xsdspec.py', 'hist.py', 'elem.py'):
        h.update(open(os.path.join(os.path.dirname(os.path.abspath(__file__)), f), 'rb').read())
    key = h.hexdigest()[:16]
    path = os.path.join(cdir, f'msweep-{tier}-{key}.json')
    if os.path.exists(path) and not force and only is None:
        return json.load(open(path))
    basic = [(t, n) for t, n in eligible_basic() if tier != 'quick' or len(M.names_of(xsdspec.MODELS[t])) < 11]     # the big ones only in the thorough tier
    tasks = [(t, n, tier) for t, n in eligible() + basic if only is None or t in only]
    tasks.sort(key=lambda a: -len(xsdspec.alphabet(xsdspec.MODELS[a[0]])))
    from .par import run_tasks
    res = []
    t0 = time.time()
    hard = 200 if tier == 'quick' else 2700

    def timed_out(t):
        return dict(tkey=t[0], name=t[1], obligations=[dict(oid=f'M/budget/{t[0]}', props=['C01', 'C06', 'C07', 'C10', 'C12', 'C19'], status='undecided',
                                                             detail='type exceeds the hard wall-clock budget of the proved layer in this tier (worker killed)')], seconds=hard)
    cres = run_tasks(canary, [None], nproc=1, hard_timeout=120)
    canary_ok = bool(cres and cres[0][1] == 'ok' and cres[0][2])
    for t, kind, val in run_tasks(task, tasks, hard_timeout=hard, on_timeout=timed_out):
        if kind in ('ok', 'timeout'):
            res.append(val)
        else:
            res.append(dict(tkey=t[0], name=t[1], obligations=[dict(oid=f'M/crash/{t[0]}', props=['C01', 'C06', 'C07', 'C10', 'C12', 'C19'], status='crash', detail=str(val))], seconds=0))
    out = dict(tier=tier, key=key, wall_s=round(time.time() - t0, 1), canary_ok=canary_ok, types=sorted(res, key=lambda r: r['tkey']))
    if only is None:
        tmp = path + f'.{os.getpid()}'
        with open(tmp, 'w') as f:
            json.dump(out, f, default=str)
        os.replace(tmp, path)
    return out


if __name__ == '__main__':
    from . import instr
    instr.install()
    only = sys.argv[2:] or None
    r = sweep(sys.argv[1] if len(sys.argv) > 1 else 'quick', force=True, only=only)
    import collections
    c = collections.Counter()
    for t in r['types']:
        for o in t['obligations']:
            c[o['status']] += 1
            if o['status'] != 'discharged':
                print(o['oid'], o['status'], str(o.get('detail'))[:300], o.get('model'))
        print(t['tkey'], t.get('seconds'), t.get('paths'))
    print(r['wall_s'], dict(c))
