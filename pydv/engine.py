"""pydv engine: symbolic proxies + decision-prefix DFS over natively executed (instrumented) code.

Semantics of everything concrete is CPython's.  Only operations on proxies are modelled; anything not modelled raises
Unsupported (a BaseException, so that library `except Exception` clauses cannot swallow it) and the obligation is then
reported as *undecided*, never as proved and never as a violation.
"""
import time
import traceback
import z3


class Unsupported(BaseException):
    pass


class Infeasible(BaseException):
    pass


class BudgetExceeded(BaseException):
    pass


MARK = ''  # private-use char put into opaque text produced by formatting a proxy


class Frame:
    __slots__ = ('prefix', 'pos', 'work', 'pc')

    def __init__(self, prefix):
        self.prefix = list(prefix)
        self.pos = 0
        self.work = []
        self.pc = []


class Ctx:
    def __init__(self, prefix, timeout_ms=30000):
        self.frames = [Frame(prefix)]
        self.solver = z3.Solver()
        self.timeout_ms = timeout_ms
        self.solver.set('timeout', timeout_ms)
        self.n_solver = 0
        self.solver_s = 0.0
        self.undo = None
        self.n_sum = 0
        self.assumed = []       # formulas assumed by the harness (requires / invariants)
        self.opaque_fmt = 0
        self.events = []        # external-call events recorded by stubs
        self.fresh = 0

    @property
    def prefix(self):
        return self.frames[0].prefix

    @property
    def work(self):
        return self.frames[0].work

    def pc_all(self):
        out = []
        for f in self.frames:
            out.extend(f.pc)
        return out


ctx = None
STATS = {'solver_calls': 0, 'solver_s': 0.0, 'paths': 0}


def fresh_name(base):
    ctx.fresh += 1
    return f'{base}!{ctx.fresh}'


def _check(extra=None):
    ctx.n_solver += 1
    STATS['solver_calls'] += 1
    t0 = time.time()
    if extra is not None:
        ctx.solver.push()
        ctx.solver.add(extra)
    r = ctx.solver.check()
    if r == z3.unknown:
        # one retry with a four times larger budget before the query counts as undecided (verdicts must not flip under load)
        ctx.solver.set('timeout', ctx.timeout_ms * 4)
        r = ctx.solver.check()
        ctx.solver.set('timeout', ctx.timeout_ms)
    if extra is not None:
        ctx.solver.pop()
    dt = time.time() - t0
    ctx.solver_s += dt
    STATS['solver_s'] += dt
    return r


def _cvc5(assertions, timeout_s=60):
    """second back end for queries z3 leaves open: the query is exported as SMT-LIB and given to the cvc5 binary (strings-exp);
    returns z3.sat / z3.unsat / z3.unknown.  Models are not imported: a cvc5 'sat' only decides feasibility."""
    import os
    import subprocess
    import tempfile
    exe = '/usr/bin/cvc5'
    if not os.path.exists(exe):
        return z3.unknown
    s2 = z3.Solver()
    s2.add(assertions)
    text = '(set-logic ALL)\n' + s2.to_smt2()
    fd, path = tempfile.mkstemp(suffix='.smt2')
    try:
        with os.fdopen(fd, 'w') as f:
            f.write(text)
        r = subprocess.run([exe, '--strings-exp', f'--tlimit={int(timeout_s * 1000)}', path], capture_output=True, text=True, timeout=timeout_s + 10)
        out = r.stdout.strip().splitlines()
        STATS['cvc5_calls'] = STATS.get('cvc5_calls', 0) + 1
        if out and out[0] == 'unsat':
            return z3.unsat
        if out and out[0] == 'sat':
            return z3.sat
    except Exception:
        pass
    finally:
        try:
            os.remove(path)
        except OSError:
            pass
    return z3.unknown


def _sat(extra):
    r = _check(extra)
    if r == z3.unknown:
        r = _cvc5(list(ctx.solver.assertions()) + [extra])
        if r == z3.unknown:
            raise Unsupported('solver unknown on feasibility query (z3 with retry, then cvc5)')
        STATS['cvc5_decided'] = STATS.get('cvc5_decided', 0) + 1
    return r == z3.sat


def decide(options):
    """options: list of z3 Bool terms, mutually exclusive and exhaustive under the path condition.
    Returns the index taken on this path; other feasible ones are queued.  Every decision (forced ones too) is recorded in
    the prefix so that a re-execution needs no solver call until it reaches new ground."""
    fr = ctx.frames[-1]
    if fr.pos < len(fr.prefix):
        i, forked = fr.prefix[fr.pos]
        fr.pos += 1
        if i >= len(options):
            raise Unsupported('non-deterministic replay of decision prefix')
        ctx.solver.add(options[i])
        if forked:
            fr.pc.append(options[i])
        return i
    feas = [i for i, c in enumerate(options) if _sat(c)]
    if not feas:
        raise Infeasible()
    i = feas[0]
    forked = len(feas) > 1
    for j in feas[1:]:
        fr.work.append(fr.prefix[:fr.pos] + [(j, True)])
    fr.prefix.append((i, forked))
    fr.pos += 1
    ctx.solver.add(options[i])
    if forked:
        fr.pc.append(options[i])
    return i


def assume(e):
    """harness-level assumption (requires / invariant)"""
    ctx.solver.add(e)
    ctx.assumed.append(e)
    if _check() != z3.sat:
        raise Infeasible()


def valid(e):
    """is e implied by the current path condition?  returns ('valid',None) | ('invalid',model) | ('unknown',None)"""
    ctx.solver.push()
    ctx.solver.add(z3.Not(e))
    t0 = time.time()
    r = ctx.solver.check()
    if r == z3.unknown:
        ctx.solver.set('timeout', ctx.timeout_ms * 4)
        r = ctx.solver.check()
        ctx.solver.set('timeout', ctx.timeout_ms)
    STATS['solver_calls'] += 1
    STATS['solver_s'] += time.time() - t0
    m = ctx.solver.model() if r == z3.sat else None
    if r == z3.unknown:
        # cvc5 may still prove the clause (unsat of the negation); a cvc5 'sat' carries no model here and stays 'unknown'
        if _cvc5(list(ctx.solver.assertions())) == z3.unsat:
            r = z3.unsat
            STATS['cvc5_decided'] = STATS.get('cvc5_decided', 0) + 1
    ctx.solver.pop()
    if r == z3.unsat:
        return 'valid', None
    if r == z3.sat:
        return 'invalid', m
    return 'unknown', None


def model():
    if _check() != z3.sat:
        return None
    return ctx.solver.model()


# ----------------------------------------------------------------------------------------------------------------------
# proxies

def _b(x):
    if isinstance(x, SymBool):
        return x.e
    if isinstance(x, bool):
        return z3.BoolVal(x)
    raise Unsupported(f'bool term from {type(x).__name__}')


class Sym:
    def __hash__(self):
        # identity hash: lets a proxy be a dict key / set member; any equality probe on a collision ends in __bool__ -> Unsupported
        return id(self) >> 4

    def __float__(self):
        raise Unsupported(f'raw float() on {type(self).__name__} (un-modelled built-in called with a proxy)')

    def __int__(self):
        raise Unsupported(f'raw int() on {type(self).__name__} (un-modelled built-in called with a proxy)')

    def __trunc__(self):
        raise Unsupported(f'raw trunc() on {type(self).__name__}')

    def __round__(self, *a):
        raise Unsupported(f'raw round() on {type(self).__name__}')

    def __complex__(self):
        raise Unsupported(f'raw complex() on {type(self).__name__}')

    def __bytes__(self):
        raise Unsupported(f'raw bytes() on {type(self).__name__}')

    def __bool__(self):
        raise Unsupported(f'raw bool() on {type(self).__name__}')

    def __len__(self):
        raise Unsupported(f'raw len() on {type(self).__name__}')

    def __iter__(self):
        raise Unsupported(f'raw iter() on {type(self).__name__}')

    def __index__(self):
        raise Unsupported(f'raw index() on {type(self).__name__}')

    def __str__(self):
        raise Unsupported(f'raw str() on {type(self).__name__}')

    def __repr__(self):
        return f'<{type(self).__name__}>'

    def __format__(self, spec):
        if ctx is not None:
            ctx.opaque_fmt += 1
        return MARK + 'sym' + MARK

    def __getattr__(self, n):
        raise Unsupported(f'attribute .{n} on {type(self).__name__}')


class SymBool(Sym):
    __hash__ = Sym.__hash__
    def __init__(self, e):
        self.e = z3.BoolVal(e) if isinstance(e, bool) else e

    def __eq__(self, o):
        if isinstance(o, (bool, SymBool)):
            return SymBool(self.e == _b(o))
        raise Unsupported('SymBool == non-bool')

    def __ne__(self, o):
        return not_(self.__eq__(o))


class SymNum(Sym):
    __hash__ = Sym.__hash__
    """common part of SymInt / SymReal.  pytype is the Python type the value stands for (int, bool, float)."""
    pytype = int

    def __init__(self, e, pytype=None):
        self.e = e
        if pytype is not None:
            self.pytype = pytype

    @staticmethod
    def _term(o):
        if isinstance(o, SymNum):
            return o.e
        if isinstance(o, bool):
            return z3.IntVal(int(o))
        if isinstance(o, int):
            return z3.IntVal(o)
        if isinstance(o, float):
            if o != o or o in (float('inf'), float('-inf')):
                raise Unsupported('non-finite float constant in arithmetic')
            return z3.RealVal(repr(o))
        return None

    def _c(self, o, f):
        if isinstance(o, float) and (o != o or o in (float('inf'), float('-inf'))):
            # this proxy stands for a finite number: comparisons with nan/inf are decided
            return f(0.0, o)
        oe = self._term(o)
        if oe is None:
            raise TypeError(f"'<' not supported between instances of '{self.pytype.__name__}' and '{type(o).__name__}'")
        return SymBool(f(self.e, oe))

    @staticmethod
    def _nonfinite(o):
        return isinstance(o, float) and (o != o or o in (float('inf'), float('-inf')))

    def __eq__(self, o):
        if self._nonfinite(o): return False
        return False if self._term(o) is None else SymBool(self.e == self._term(o))

    def __ne__(self, o):
        if self._nonfinite(o): return True
        return True if self._term(o) is None else SymBool(self.e != self._term(o))

    def __lt__(self, o): return self._c(o, lambda a, b: a < b)
    def __le__(self, o): return self._c(o, lambda a, b: a <= b)
    def __gt__(self, o): return self._c(o, lambda a, b: a > b)
    def __ge__(self, o): return self._c(o, lambda a, b: a >= b)

    def _res(self, e, o):
        if isinstance(self, SymReal) or isinstance(o, (SymReal, float)):
            return SymReal(e)
        return SymInt(e)

    def __add__(self, o):
        t = self._term(o)
        if t is None: return NotImplemented
        return self._res(self.e + t, o)
    __radd__ = __add__

    def __sub__(self, o):
        t = self._term(o)
        if t is None: return NotImplemented
        return self._res(self.e - t, o)

    def __rsub__(self, o):
        t = self._term(o)
        if t is None: return NotImplemented
        return self._res(t - self.e, o)

    def __neg__(self):
        return type(self)(-self.e)


class SymInt(SymNum):
    pytype = int


class SymReal(SymNum):
    """a *finite* Python float, treated as a mathematical real (assumption: machine arithmetic treated as mathematical)"""
    pytype = float


class SymStr(Sym):
    __hash__ = Sym.__hash__
    pytype = str

    def __init__(self, e):
        self.e = z3.StringVal(e) if isinstance(e, str) else e

    @staticmethod
    def _term(o):
        if isinstance(o, SymStr):
            return o.e
        if isinstance(o, str):
            return z3.StringVal(o)
        return None

    def __eq__(self, o):
        t = self._term(o)
        return False if t is None else SymBool(self.e == t)

    def __ne__(self, o):
        t = self._term(o)
        return True if t is None else SymBool(self.e != t)

    def __lt__(self, o):
        if self._term(o) is None:
            raise TypeError(f"'<' not supported between instances of 'str' and '{type(o).__name__}'")
        raise Unsupported('string ordering')
    __le__ = __gt__ = __ge__ = __lt__

    def startswith(self, p):
        t = self._term(p)
        if t is None: raise Unsupported('startswith non-str')
        return SymBool(z3.PrefixOf(t, self.e))

    def endswith(self, p):
        t = self._term(p)
        if t is None: raise Unsupported('endswith non-str')
        return SymBool(z3.SuffixOf(t, self.e))

    def __getitem__(self, i):
        if isinstance(i, int) and i >= 0:
            # raises IndexError natively if too short
            if truth(SymBool(z3.Length(self.e) > i)):
                return SymStr(z3.SubString(self.e, i, 1))
            raise IndexError('string index out of range')
        raise Unsupported('string index/slice')

    def __add__(self, o):
        t = self._term(o)
        if t is None: raise TypeError('can only concatenate str')
        return SymStr(z3.Concat(self.e, t))

    def __radd__(self, o):
        t = self._term(o)
        if t is None: raise TypeError('can only concatenate str')
        return SymStr(z3.Concat(t, self.e))

    def contains(self, sub):
        t = self._term(sub)
        if t is None: raise TypeError("'in <string>' requires string as left operand")
        return SymBool(z3.Contains(self.e, t))


class SymEnum(Sym):
    __hash__ = Sym.__hash__
    """term over a finite domain of python objects, compared by identity"""

    def __init__(self, e, domain):
        self.e = e
        self.domain = domain

    def idx(self, o):
        for i, d in enumerate(self.domain):
            if d is o:
                return i
        return None

    def is_(self, o):
        if isinstance(o, SymEnum):
            return SymBool(z3.Or([z3.And(self.e == i, o.e == j) for i, a in enumerate(self.domain)
                                  for j, b in enumerate(o.domain) if a is b] + [z3.BoolVal(False)]))
        i = self.idx(o)
        return SymBool(self.e == i) if i is not None else False

    def truthy(self):
        return SymBool(z3.Or([self.e == i for i, d in enumerate(self.domain) if d] + [z3.BoolVal(False)]))

    def concretize(self):
        i = decide([self.e == i for i in range(len(self.domain))])
        return self.domain[i]

    def __eq__(self, o): raise Unsupported('raw == on SymEnum')
    def __ne__(self, o): raise Unsupported('raw != on SymEnum')


class SymOptional(Sym):
    """result of a modelled call that returns None or some (opaque) object: only `is None` / truthiness are defined"""

    def __init__(self, present):
        self.present = present      # z3 Bool: value is not None


class SymList(Sym):
    """list with symbolic length: n0 anonymous members (pairwise distinct, distinct from every designated object)
    followed by a concrete suffix of designated members."""

    def __init__(self, name, n0, suffix=()):
        self.name = name
        self.n0 = n0 if isinstance(n0, SymInt) else SymInt(n0)
        self.suffix = list(suffix)

    @property
    def n(self):
        return SymInt(self.n0.e + len(self.suffix))

    def append(self, el):
        if ctx is not None and ctx.undo is not None:
            ctx.undo.append(('list', self, list(self.suffix)))
        self.suffix.append(el)

    def remove(self, el):
        for i, s in enumerate(self.suffix):
            if s is el:
                if ctx is not None and ctx.undo is not None:
                    ctx.undo.append(('list', self, list(self.suffix)))
                del self.suffix[i]
                return
        # removing an anonymous member cannot be expressed; a designated non-member raises ValueError natively
        raise Unsupported('remove of a non-designated member from SymList')


# ----------------------------------------------------------------------------------------------------------------------
# hooks called from instrumented code

def truth(v):
    if isinstance(v, Sym):
        if isinstance(v, SymBool):
            return decide([v.e, z3.Not(v.e)]) == 0
        if isinstance(v, SymNum):
            return decide([v.e != 0, v.e == 0]) == 0
        if isinstance(v, SymStr):
            return decide([z3.Length(v.e) > 0, z3.Length(v.e) == 0]) == 0
        if isinstance(v, SymEnum):
            return truth(v.truthy())
        if isinstance(v, SymList):
            return truth(v.n > 0)
        if isinstance(v, SymOptional):
            return decide([v.present, z3.Not(v.present)]) == 0
        raise Unsupported(f'truth of {type(v).__name__}')
    return bool(v)


def not_(v):
    if isinstance(v, SymBool):
        return SymBool(z3.Not(v.e))
    if isinstance(v, Sym):
        return not truth(v)
    return not v


def and_(*fs):
    v = True
    for f in fs:
        v = f()
        if not truth(v):
            return v
    return v


def or_(*fs):
    v = False
    for f in fs:
        v = f()
        if truth(v):
            return v
    return v


def ite(t, a, b):
    """if-conversion of `if T: NAME = <bool const>`"""
    if isinstance(t, SymEnum):
        t = t.truthy()
    if isinstance(t, SymBool) and isinstance(a, (bool, SymBool)) and isinstance(b, (bool, SymBool)):
        return SymBool(z3.If(t.e, _b(a), _b(b)))
    return a if truth(t) else b


def len_(v):
    if isinstance(v, SymList):
        return v.n
    if isinstance(v, SymStr):
        return SymInt(z3.Length(v.e))
    if isinstance(v, SymNum):
        raise TypeError(f"object of type '{v.pytype.__name__}' has no len()")
    return len(v)


def is_(a, b):
    if isinstance(a, SymOptional) or isinstance(b, SymOptional):
        o, other = (a, b) if isinstance(a, SymOptional) else (b, a)
        if other is None:
            return SymBool(z3.Not(o.present))
        if o is other:
            return True
        raise Unsupported('identity of optional with non-None')
    if isinstance(a, SymEnum):
        return a.is_(b)
    if isinstance(b, SymEnum):
        return b.is_(a)
    if isinstance(a, Sym) or isinstance(b, Sym):
        if a is b:
            return True
        # a proxy stands for a value of its pytype; identity with None / classes / containers is decidable
        other = b if isinstance(a, Sym) else a
        if other is None or isinstance(other, (type, list, dict, tuple, set)):
            return False
        if isinstance(other, bool):
            s = a if isinstance(a, Sym) else b
            if isinstance(s, SymBool):
                return SymBool(s.e == other)
            if isinstance(s, SymNum) and s.pytype is bool:
                return SymBool(s.e == int(other))
            return False
        raise Unsupported('identity test on proxy')
    return a is b


def isnot_(a, b):
    return not_(is_(a, b))


def eq_(a, b):
    if isinstance(a, SymEnum) or isinstance(b, SymEnum):
        return is_(a, b)
    if a is b and not isinstance(a, Sym):
        return a == b
    return a == b


def ne_(a, b):
    if isinstance(a, SymEnum) or isinstance(b, SymEnum):
        return not_(is_(a, b))
    return a != b


def in_(a, c):
    if isinstance(c, SymList):
        return any(a is s for s in c.suffix)
    if isinstance(c, SymStr):
        return c.contains(a)
    if isinstance(a, Sym):
        if isinstance(c, str):
            if isinstance(a, SymStr):
                return SymBool(z3.Contains(z3.StringVal(c), a.e))
            raise TypeError("'in <string>' requires string as left operand")
        if isinstance(c, (list, tuple)):
            if len(c) > 3 and not any(isinstance(x, Sym) for x in c):
                # one query first: can a equal any member at all?
                terms = [eq_(a, x) for x in c]
                terms = [t for t in terms if t is not False]
                if not terms or (all(isinstance(t, SymBool) for t in terms) and not _sat(z3.Or([t.e for t in terms]))):
                    return False
            for x in c:
                if truth(eq_(a, x)):
                    return True
            return False
        if isinstance(c, (set, frozenset, dict)) or hasattr(c, 'keys'):
            # hash-based containers of concrete members: membership == equality with some member
            for x in list(c):
                if truth(eq_(a, x)):
                    return True
            return False
        raise Unsupported(f'proxy in {type(c).__name__}')
    if isinstance(c, (list, tuple)) and any(isinstance(x, Sym) for x in c):
        for x in c:
            if truth(eq_(a, x)):
                return True
        return False
    return a in c


def notin_(a, c):
    return not_(in_(a, c))


def pytype_of(a):
    if isinstance(a, SymBool):
        return bool
    if isinstance(a, (SymNum, SymStr)):
        return a.pytype
    if isinstance(a, SymList):
        return list
    return None


def isinstance_(a, t):
    if isinstance(a, SymEnum):
        return isinstance(a.concretize(), t)
    pt = pytype_of(a)
    if pt is not None:
        ts = t if isinstance(t, tuple) else (t,)
        return any(isinstance(x, type) and issubclass(pt, x) for x in ts)
    return isinstance(a, t)


def type_(*a):
    if len(a) == 1:
        pt = pytype_of(a[0])
        if pt is not None:
            return pt
        if isinstance(a[0], SymEnum):
            return type(a[0].concretize())
    return type(*a)


def hasattr_(o, n):
    pt = pytype_of(o)
    if pt is not None:
        return hasattr(pt, n)
    if isinstance(o, SymEnum):
        return hasattr(o.concretize(), n)
    return hasattr(o, n)


def bool_(*a):
    if a and isinstance(a[0], Sym):
        return truth(a[0])
    return bool(*a)


# str/int/float of proxies are defined by plug-ins (values.py) because they need the assumed contracts of the built-ins
CONVERT = {}


def str_(*a, **k):
    if len(a) == 1 and not k and isinstance(a[0], Sym):
        f = CONVERT.get('str')
        if f is None:
            raise Unsupported('str() of proxy')
        return f(a[0])
    return str(*a, **k)


def int_(*a, **k):
    if a and isinstance(a[0], Sym):
        f = CONVERT.get('int')
        if f is None:
            raise Unsupported('int() of proxy')
        return f(*a, **k)
    return int(*a, **k)


def float_(*a, **k):
    if a and isinstance(a[0], Sym):
        f = CONVERT.get('float')
        if f is None:
            raise Unsupported('float() of proxy')
        return f(*a, **k)
    return float(*a, **k)


# external functions: the harness installs stubs (assumed contracts) by name; default is the real function
EXT = {}


_F_OVER = 2 ** 1024 - 2 ** 970      # smallest integer magnitude whose conversion to float overflows (round-half-even)


def _math_contract(name, real, *a, **k):
    """assumed contracts of the math functions the library may call with a number"""
    v = a[0] if a else None
    if isinstance(v, SymNum) and name in ('math.isfinite', 'math.isnan', 'math.isinf'):
        if isinstance(v, SymInt) and v.pytype is not bool:
            big = z3.Or(v.e >= _F_OVER, v.e <= -_F_OVER)
            if decide([big, z3.Not(big)]) == 0:
                raise OverflowError('int too large to convert to float')
        return name == 'math.isfinite'
    if any(isinstance(x, Sym) for x in a):
        raise Unsupported(f'{name} of a proxy')
    return real(*a, **k)


def ext(name, real, *a, **k):
    k.pop('_dv_ns', None)
    f = EXT.get(name)
    if f is None and name.startswith('math.'):
        return _math_contract(name, real, *a, **k)
    if f is not None:
        return f(real, *a, **k)
    if name == 'print':
        if ctx is not None:
            ctx.events.append(('print', a))
    return real(*a, **k)


# ----------------------------------------------------------------------------------------------------------------------
# callee summarisation (exact strongest postcondition of flag-only callees, merged with ite)

_MISSING = object()


def log_store(obj, slot, old):
    if ctx is not None and ctx.undo is not None:
        ctx.undo.append(('slot', obj, slot, old))


def _enum_of(v, domain):
    def idx(o):
        for i, d in enumerate(domain):
            if d is o:
                return i
        domain.append(o)
        return len(domain) - 1
    if isinstance(v, SymEnum):
        t = z3.IntVal(-1)
        for i, d in enumerate(v.domain):
            t = z3.If(v.e == i, idx(d), t)
        return t
    if isinstance(v, Sym):
        raise Unsupported('non-enum proxy stored in a flag slot')
    return z3.IntVal(idx(v))


def summarize(fn, *args, **kw):
    """Run fn over all of its paths locally; its stores into flag slots (logged through log_store) are undone between
    sub-paths and merged into ite-terms.  Mergeable only if every sub-path returns None/bool/SymBool or the same object,
    and raises nothing; otherwise falls back to forking in the caller (outcome chosen by decide)."""
    ctx.n_sum += 1
    outer_undo = ctx.undo
    outcomes = []
    work = [[]]
    while work:
        pre = work.pop()
        fr = Frame(pre)
        ctx.frames.append(fr)
        ctx.undo = []
        ctx.solver.push()
        ret = None
        try:
            try:
                ret = ('ret', fn(*args, **kw))
            except Infeasible:
                ret = None
            except (Unsupported, BudgetExceeded):
                raise
            except Exception as ex:
                ret = ('exc', ex)
        finally:
            ctx.solver.pop()
            ctx.frames.pop()
            writes = {}
            lists = {}
            for rec in reversed(ctx.undo):
                if rec[0] == 'slot':
                    _, obj, slot, old = rec
                    key = (id(obj), slot)
                    if key not in writes:
                        writes[key] = (obj, slot, obj.__dict__.get(slot, _MISSING))
                    if old is _MISSING:
                        obj.__dict__.pop(slot, None)
                    else:
                        obj.__dict__[slot] = old
                else:
                    _, lst, old = rec
                    if id(lst) not in lists:
                        lists[id(lst)] = (lst, list(lst.suffix))
                    lst.suffix[:] = old
            ctx.undo = outer_undo
        work.extend(fr.work)
        if ret is not None:
            outcomes.append((z3.And(fr.pc) if fr.pc else z3.BoolVal(True), ret, writes, lists))
    if not outcomes:
        raise Infeasible()

    def simple(v):
        return v is None or isinstance(v, (bool, SymBool))
    kinds = {o[1][0] for o in outcomes}
    mergeable = kinds == {'ret'} and not any(o[3] for o in outcomes) and (
        all(simple(o[1][1]) for o in outcomes) or all(o[1][1] is outcomes[0][1][1] for o in outcomes))
    if not mergeable or len(outcomes) == 1:
        if len(outcomes) > 1:
            i = decide([o[0] for o in outcomes])
        else:
            i = 0
            ctx.solver.add(outcomes[0][0])
            ctx.frames[-1].pc.append(outcomes[0][0])
        pc, ret, writes, lists = outcomes[i]
        for obj, slot, new in writes.values():
            log_store(obj, slot, obj.__dict__.get(slot, _MISSING))
            if new is _MISSING:
                obj.__dict__.pop(slot, None)
            else:
                obj.__dict__[slot] = new
        for lst, new in lists.values():
            if ctx.undo is not None:
                ctx.undo.append(('list', lst, list(lst.suffix)))
            lst.suffix[:] = new
        if ret[0] == 'exc':
            raise ret[1]
        return ret[1]
    keys = {}
    for pc, ret, writes, _ in outcomes:
        for k, w in writes.items():
            keys[k] = (w[0], w[1])
    for k, (obj, slot) in keys.items():
        old = obj.__dict__.get(slot, _MISSING)
        domain = []
        term = _enum_of(None if old is _MISSING else old, domain)
        for pc, ret, writes, _ in outcomes:
            if k in writes:
                w = writes[k][2]
                term = z3.If(pc, _enum_of(None if w is _MISSING else w, domain), term)
        log_store(obj, slot, old)
        obj.__dict__[slot] = SymEnum(z3.simplify(term), domain)
    vals = [o[1][1] for o in outcomes]
    if all(v is vals[0] for v in vals):
        return vals[0]
    if any(v is None for v in vals):
        dom = [None, True, False]
        t = z3.IntVal(0)
        for pc, ret, _, _ in outcomes:
            v = ret[1]
            vi = z3.IntVal(0) if v is None else (z3.If(v.e, 1, 2) if isinstance(v, SymBool) else z3.IntVal(1 if v else 2))
            t = z3.If(pc, vi, t)
        return SymEnum(z3.simplify(t), dom)
    t = z3.BoolVal(False)
    for pc, ret, _, _ in outcomes:
        v = ret[1]
        t = z3.If(pc, _b(v), t)
    return SymBool(t)


# ----------------------------------------------------------------------------------------------------------------------
# exploration driver

class PathResult:
    __slots__ = ('status', 'value', 'prefix', 'detail')

    def __init__(self, status, value=None, prefix=None, detail=None):
        self.status = status      # 'ok' | 'unsupported' | 'crash'
        self.value = value
        self.prefix = prefix
        self.detail = detail


def explore(harness, maxpaths=20000, timeout=None, query_timeout_ms=30000):
    """Enumerate all feasible paths of harness() by re-execution.  harness returns any value (its verdict for the path)."""
    global ctx
    results = []
    work = [[]]
    npaths = 0
    t0 = time.time()
    while work:
        pre = work.pop()
        ctx = Ctx(pre, timeout_ms=query_timeout_ms)
        try:
            results.append(PathResult('ok', harness(), list(ctx.prefix)))
        except Infeasible:
            pass
        except Unsupported as u:
            tb = traceback.extract_tb(u.__traceback__)
            where = ' <- '.join(f'{f.name}:{f.lineno}' for f in tb[-4:])
            results.append(PathResult('unsupported', None, list(ctx.prefix), f'{u} @ {where}'))
        work.extend(ctx.work)
        npaths += 1
        STATS['paths'] += 1
        if npaths > maxpaths or (timeout and time.time() - t0 > timeout):
            results.append(PathResult('unsupported', None, None, f'budget exceeded after {npaths} paths / {time.time()-t0:.0f}s'))
            break
    ctx = None
    return results
