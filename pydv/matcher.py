"""Symbolic pre-states of the child-container matcher and the machinery to run the real (instrumented) matcher code on them.

State of a fixed-shape container (no indicator with maxOccurs=unbounded => duplicate() can never run):
   per node  _chosen_child in {None} + children (choice nodes only), _force_validate in {None, True} (sequence nodes only),
             _requirements_fulfilled in {None, True, False}      -- SymEnum terms
   per leaf  _xml_elements = SymList with symbolic length n >= 0 (anonymous members) + designated members appended by the call
Flag slots are data descriptors installed on XMLChildContainer: every store is logged (undo log) so that callees whose only
effect is flag stores can be summarised exactly (engine.summarize).  Which functions those are is decided by a static
effect analysis of the CURRENT source (pydv/effects), never by name.
"""
import ast
import copy
import os
import z3

from . import engine as E
from . import xsdspec

FLAGS = ('_chosen_child', '_force_validate', '_requirements_fulfilled')


class Flag:
    """data descriptor: value lives in obj.__dict__['_fl' + name]; stores are logged for undo/merge"""

    def __init__(self, name):
        self.name = name
        self.slot = '_fl' + name

    def __get__(self, obj, t=None):
        if obj is None:
            return self
        return obj.__dict__.get(self.slot)

    def __set__(self, obj, v):
        E.log_store(obj, self.slot, obj.__dict__.get(self.slot, E._MISSING))
        obj.__dict__[self.slot] = v


def install_flags(XCC):
    for f in FLAGS:
        if not isinstance(XCC.__dict__.get(f), Flag):
            setattr(XCC, f, Flag(f))


# ---------------------------------------------------------------------------------------------------------------------
# static effect analysis: which functions of xmlchildcontainer.py only store into flag slots?

FLAG_STORE_ATTRS = {'_chosen_child', 'chosen_child', '_force_validate', '_requirements_fulfilled', 'requirements_fulfilled'}
MUTATORS = {'append', 'extend', 'insert', 'remove', 'pop', 'clear', 'update', 'setdefault', 'add_child', 'replace_child', 'duplicate',
            'add_xml_element', 'add_element', '_add_duplication_parent', '_duplicate_parent_in_path', 'remove_children', 'sort', 'reverse',
            '_check_choices_intelligently', '_create_empty_copy', '_populate_children', '_update_requirements_in_path'}


def flag_only_functions(path):
    tree = ast.parse(open(path, encoding='utf-8').read())
    funcs = {}
    for node in ast.walk(tree):
        if isinstance(node, ast.FunctionDef):
            funcs.setdefault(node.name, []).append(node)
    info = {}
    for name, defs in funcs.items():
        stores, calls, bad = set(), set(), False
        for d in defs:
            for n in ast.walk(d):
                if isinstance(n, (ast.Assign, ast.AugAssign, ast.AnnAssign)):
                    targets = n.targets if isinstance(n, ast.Assign) else [n.target]
                    for t in targets:
                        for tt in ast.walk(t):
                            if isinstance(tt, ast.Attribute) and isinstance(tt.ctx, ast.Store):
                                stores.add(tt.attr)
                            if isinstance(tt, ast.Subscript) and isinstance(tt.ctx, ast.Store):
                                bad = True
                if isinstance(n, ast.Delete):
                    bad = True
                if isinstance(n, ast.Call):
                    if isinstance(n.func, ast.Attribute):
                        calls.add(n.func.attr)
                    elif isinstance(n.func, ast.Name):
                        calls.add(n.func.id)
                if isinstance(n, (ast.Global, ast.Nonlocal)):
                    bad = True
        info[name] = (stores, calls, bad)
    ok = {n for n, (s, c, b) in info.items() if not b and s <= FLAG_STORE_ATTRS and not (c & MUTATORS)}
    changed = True
    while changed:
        changed = False
        for n in list(ok):
            s, c, b = info[n]
            # a call to another function of this module that is not flag-only disqualifies
            if any(callee in info and callee not in ok for callee in c):
                ok.discard(n)
                changed = True
    writers = {n for n in ok if info[n][0]}     # those that actually store something (worth summarising)
    # plus their flag-only callers, so that whole call trees merge
    return ok, writers


def install_summaries(cc_module):
    """wrap every flag-only function that (transitively) writes flags"""
    ok, writers = flag_only_functions(cc_module.__file__)
    XCC = cc_module.XMLChildContainer
    wrapped = []
    trans = set(writers)
    # callers (flag-only) of writers are summarised too
    tree = ast.parse(open(cc_module.__file__, encoding='utf-8').read())
    calls = {}
    for node in ast.walk(tree):
        if isinstance(node, ast.FunctionDef):
            cs = set()
            for n in ast.walk(node):
                if isinstance(n, ast.Call):
                    cs.add(n.func.attr if isinstance(n.func, ast.Attribute) else getattr(n.func, 'id', None))
            calls.setdefault(node.name, set()).update(cs)
    changed = True
    while changed:
        changed = False
        for n in ok:
            if n not in trans and calls.get(n, set()) & trans:
                trans.add(n)
                changed = True
    for name in sorted(trans):
        if name in ('get_required_element_names', 'check_required_elements', 'func', 'validate_child'):
            continue    # entry points under contract / closures are explored as part of their parents
        if name in cc_module.__dict__ and callable(cc_module.__dict__[name]) and not isinstance(cc_module.__dict__[name], type):
            orig = cc_module.__dict__[name]
            if getattr(orig, '_dv_wrapped', False):
                continue
            w = _mk_wrapper(orig)
            cc_module.__dict__[name] = w
            wrapped.append(name)
        elif name in XCC.__dict__ and callable(XCC.__dict__[name]):
            orig = XCC.__dict__[name]
            if getattr(orig, '_dv_wrapped', False):
                continue
            setattr(XCC, name, _mk_wrapper(orig))
            wrapped.append('XMLChildContainer.' + name)
    return wrapped


def _mk_wrapper(orig):
    def w(*a, **k):
        if E.ctx is None:
            return orig(*a, **k)
        return E.summarize(orig, *a, **k)
    w._dv_wrapped = True
    w.__name__ = getattr(orig, '__name__', 'wrapped')
    return w


def install_get_leaves_contract(XCC):
    """get_leaves(function) where only the truthiness of the result is consumed:
       result is truthy  <=>  some leaf has function(leaf) not None        (proved separately per node kind: C01/get_leaves)"""
    if getattr(XCC.get_leaves, '_dv_contract', False):
        return
    orig = XCC.get_leaves

    def get_leaves(self, function=None):
        if function is None or E.ctx is None:
            return orig(self, function)
        t = z3.BoolVal(False)
        for leaf in self.iterate_leaves():
            r = E.summarize(lambda l: E.isnot_(function(l), None), leaf)
            t = z3.Or(t, r.e if isinstance(r, E.SymBool) else z3.BoolVal(bool(r)))
        return E.SymBool(z3.simplify(t))
    get_leaves._dv_contract = True
    get_leaves._dv_orig = orig
    XCC.get_leaves = get_leaves


# ---------------------------------------------------------------------------------------------------------------------

def kind(n, mods):
    XSDElement, XSDSequence, XSDChoice, XSDGroup = mods
    c = n.content
    return 'E' if isinstance(c, XSDElement) else 'S' if isinstance(c, XSDSequence) else 'C' if isinstance(c, XSDChoice) else 'G'


class State:
    pass


def mkstate(lib_mods, container, assume_typing=True):
    """make the container's state arbitrary (symbolic flags, symbolic leaf occupancy). Must run inside an exploration."""
    st = State()
    st.c = container
    st.nodes = list(container._raw_traverse())
    st.leaves = []
    st.cnt = {}
    st.fl = {}
    st.kind = {}
    S = E.ctx.solver
    for i, n in enumerate(st.nodes):
        n._dv_idx = i
        k = kind(n, lib_mods)
        st.kind[i] = k
        dom_cc = [None] + list(n._children) if k == 'C' else [None]
        dom_fv = [None, True] if k == 'S' else [None]
        dom_rf = [None, True, False]
        for name, dom in (('_chosen_child', dom_cc), ('_force_validate', dom_fv), ('_requirements_fulfilled', dom_rf)):
            if len(dom) == 1:
                n.__dict__['_fl' + name] = dom[0]
                st.fl[(i, name)] = None
                continue
            v = z3.Int(f'{name}{i}')
            S.add(v >= 0, v < len(dom))
            se = E.SymEnum(v, dom)
            n.__dict__['_fl' + name] = se
            st.fl[(i, name)] = se
        if k == 'E':
            v = z3.Int(f'n{i}_{n.content.name}')
            S.add(v >= 0)
            if n.max_occurrences != 'unbounded':
                S.add(v <= n.max_occurrences)        # I1: a leaf never holds more than maxOccurs
            st.cnt[i] = v
            n.content._xml_elements = E.SymList(n.content.name, E.SymInt(v))
            st.leaves.append(n)
    container._reset_iterators()
    for n in st.nodes:
        n._traversed = None
        n._iterated_leaves = None
        n._reversed_path_to_root = None
    return st


def flag_term(st, i, name):
    se = st.fl[(i, name)]
    return None if se is None else se.e


def post_flag(n, name):
    """(value, z3 index term or None) of a flag after the call"""
    return n.__dict__.get('_fl' + name)


# ---------------------------------------------------------------------------------------------------------------------
# reference predicates over leaf counts, from the SPEC regex (dup-free models only)

def names_of(r, acc=None):
    acc = [] if acc is None else acc
    if r[0] == 'sym': acc.append(r[1])
    elif r[0] == 'rep': names_of(r[1], acc)
    else:
        for x in r[1]: names_of(x, acc)
    return acc


def dup_free(r):
    ns = names_of(r)
    return len(ns) == len(set(ns))


def fixed_shape(r):
    """no repetition with max>1/unbounded around a non-symbol"""
    if r[0] == 'sym': return True
    if r[0] == 'rep':
        if r[1][0] != 'sym' and (r[3] is None or r[3] > 1): return False
        return fixed_shape(r[1])
    return all(fixed_shape(x) for x in r[1])


def empty_f(r, cnt):
    return z3.And([cnt[a] == 0 for a in names_of(r)] + [z3.BoolVal(True)])


def valid_f(r, cnt):
    """block word (names in model order, cnt[a] copies each) is in L(r); r dup-free and fixed-shape"""
    k = r[0]
    if k == 'sym':
        return cnt[r[1]] == 1
    if k == 'rep':
        _, x, mi, ma = r
        if x[0] == 'sym':
            c = cnt[x[1]]
            return z3.And([c >= mi] + ([c <= ma] if ma is not None else []))
        assert ma == 1
        if mi == 0:
            return z3.Or(empty_f(x, cnt), valid_f(x, cnt))
        return valid_f(x, cnt)
    if k == 'seq':
        return z3.And([valid_f(x, cnt) for x in r[1]] + [z3.BoolVal(True)])
    if k == 'alt':
        return z3.Or([z3.And([valid_f(x, cnt)] + [empty_f(y, cnt) for y in r[1] if y is not x]) for x in r[1]] + [z3.BoolVal(False)])
    raise ValueError(k)


def completable_f(r, cnt):
    """some word of L(r) has at least cnt[a] copies of each a; r dup-free and fixed-shape"""
    k = r[0]
    if k == 'sym':
        return cnt[r[1]] <= 1
    if k == 'rep':
        _, x, mi, ma = r
        if x[0] == 'sym':
            return z3.BoolVal(True) if ma is None else cnt[x[1]] <= ma
        return completable_f(x, cnt)
    if k == 'seq':
        return z3.And([completable_f(x, cnt) for x in r[1]] + [z3.BoolVal(True)])
    if k == 'alt':
        return z3.Or([z3.And([completable_f(x, cnt)] + [empty_f(y, cnt) for y in r[1] if y is not x]) for x in r[1]] + [z3.BoolVal(False)])
    raise ValueError(k)


def viable_after_add_f(r, cnt, a):
    """the block word cnt (which already includes the new child a, and is empty after a's leaf) is a prefix of a word of L(r) that can be
    completed by appending only AFTER a: everything before a is final, a's own particle is within bounds.  r dup-free, fixed-shape, a in r"""
    k = r[0]
    if k == 'sym':
        return cnt[r[1]] == 1
    if k == 'rep':
        _, x, mi, ma = r
        if x[0] == 'sym':
            return z3.BoolVal(True) if ma is None else cnt[x[1]] <= ma
        return viable_after_add_f(x, cnt, a)
    if k == 'seq':
        out = []
        for x in r[1]:
            if a in names_of(x):
                out.append(viable_after_add_f(x, cnt, a))
                break
            out.append(valid_f(x, cnt))
        return z3.And(out)
    if k == 'alt':
        for x in r[1]:
            if a in names_of(x):
                return z3.And([viable_after_add_f(x, cnt, a)] + [empty_f(y, cnt) for y in r[1] if y is not x])
    raise ValueError(k)
