"""Shared harness pieces for element-level contracts (C04, C14, C15, C16, C17, C18): representative instances, the
assumed contract of xml.etree.ElementTree as a recording stub, abstract state of an element."""
import z3
from . import engine as E
from . import xsdspec, lex, values as V
from .checks.c05 import class_name_for, ct_class_name, cap_first, _witness


def xml_class_name(name):
    return 'XML' + ''.join(cap_first(p) for p in name.split('-'))


def element_table():
    """name -> (class name, type key) from the reference schema"""
    return {n: (xml_class_name(n), next(iter(t))) for n, t in xsdspec.element_types().items()}


_VAL = {}


def valid_value(tkey):
    """a value (from the reference schema only) that the element's type accepts; '' for types without text"""
    if tkey in _VAL:
        return _VAL[tkey]
    st = xsdspec.element_simple_type(tkey)
    v = '' if not st else _witness(xsdspec.SIMPLE[st])
    _VAL[tkey] = v
    return v


def declared_attrs(tkey):
    """[(library-visible name, qualified schema name, simple type name, required)] -- the library strips the xml:/xlink:
    prefix in its own tables (recorded as a C03/C04 finding); contracts are stated over the qualified names"""
    if tkey not in xsdspec.ATTRS:
        return []
    return [(qn, tname, req) for qn, tname, req in xsdspec.ATTRS[tkey]]


# ---------------------------------------------------------------------------------------------------------------------
# ElementTree stub: records construction; assumed contract = "Element stores tag/attrib/text verbatim, append keeps order"

class ETNode:
    def __init__(self, tag, attrib=None, **extra):
        self.tag = tag
        self.attrib = dict(attrib or {})
        self.attrib.update(extra)
        self.text = None
        self.tail = None
        self.children = []

    def append(self, ch):
        self.children.append(ch)

    def __iter__(self):
        return iter(self.children)

    def __len__(self):
        return len(self.children)


class ETLog:
    def __init__(self):
        self.events = []


def _from_xmlelement():
    import sys
    f = sys._getframe(3)        # stub <- engine.ext <- caller in the library
    return f.f_code.co_filename.endswith('xmlelement.py')


def install_et_stub(log):
    def Element(real, tag, attrib=None, **extra):
        if not _from_xmlelement():
            return real(tag, attrib or {}, **extra)
        n = ETNode(tag, attrib, **extra)
        log.events.append(('Element', n))
        return n

    def indent(real, tree, space='  ', level=0):
        if not isinstance(tree, ETNode):
            return real(tree, space=space, level=level)
        log.events.append(('indent', tree, space, level))

    def tostring(real, element, encoding=None, **kw):
        if not isinstance(element, ETNode):
            return real(element, encoding=encoding, **kw)
        log.events.append(('tostring', element, encoding))
        return 'XML(' + str(id(element)) + ')'
    E.EXT['ET.Element'] = Element
    E.EXT['ET.indent'] = indent
    E.EXT['ET.tostring'] = tostring


def uninstall_et_stub():
    for k in ('ET.Element', 'ET.indent', 'ET.tostring'):
        E.EXT.pop(k, None)


# ---------------------------------------------------------------------------------------------------------------------
# abstract state of an element (identity-based, shallow per level)

def abs_state(e, depth=3):
    kids = list(e._unordered_children)
    try:
        ordered = list(e.get_children(ordered=True))
    except Exception as ex:
        ordered = ('raises', type(ex).__name__)
    return {
        'class': type(e).__name__,
        'value': e._value if hasattr(e, '_value') else None,
        'xsd_check': e._xsd_check,
        'attributes': dict(e._attributes),
        'insertion': [id(k) for k in kids],
        'ordered': [id(k) for k in ordered] if isinstance(ordered, list) else ordered,
        'parent': id(e._parent) if e._parent is not None else None,
        'children': [abs_state(k, depth - 1) for k in kids] if depth > 0 else None,
    }
