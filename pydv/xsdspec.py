"""xsdspec -- independent reading of the *vendored* MusicXML 4.0 schema (/verif/spec), plain ElementTree, no library code.

Produces the reference objects the contracts are stated against:
  MODELS[type_key]   content model as regex AST over child names  ('sym',a) ('seq',[..]) ('alt',[..]) ('rep',r,min,max|None)
  ATTRS[type_key]    list of (qualified attribute name, simple type name, required)
  SIMPLE[type_name]  lexical definition of each simple type (see SimpleDef)
  ELEMENTS           list of element declarations (name, type_key, path context)
type_key: the complexType name, or one of the anonymous ones: '@score-partwise', '@part', '@measure', '@directive'.
"""
import hashlib
import os
import xml.etree.ElementTree as ET

HERE = os.path.dirname(os.path.abspath(__file__))
SPEC = os.path.join(os.path.dirname(HERE), 'spec')
XS = '{http://www.w3.org/2001/XMLSchema}'


def _local(tag):
    return tag[len(XS):] if tag.startswith(XS) else tag


def sha256(path):
    return hashlib.sha256(open(path, 'rb').read()).hexdigest()


def check_vendored():
    """the vendored schema files must be the ones recorded in SHA256SUMS (guards against an accidental edit of /verif/spec)"""
    want = {}
    for line in open(os.path.join(SPEC, 'SHA256SUMS')):
        h, n = line.split()
        want[os.path.basename(n)] = h
    return all(sha256(os.path.join(SPEC, n)) == h for n, h in want.items())


root = ET.parse(os.path.join(SPEC, 'musicxml_4_0.xsd')).getroot()
xml_root = ET.parse(os.path.join(SPEC, 'xml.xsd')).getroot()

groups = {g.get('name'): g for g in root.findall(XS + 'group')}
ctypes = {c.get('name'): c for c in root.findall(XS + 'complexType')}
stypes = {s.get('name'): s for s in root.findall(XS + 'simpleType')}
agroups = {a.get('name'): a for a in root.findall(XS + 'attributeGroup')}
top_elements = {e.get('name'): e for e in root.findall(XS + 'element')}

# anonymous complex types of the partwise tree
_sp = top_elements['score-partwise']
_sp_ct = _sp.find(XS + 'complexType')
_part = [e for e in _sp_ct.iter(XS + 'element') if e.get('name') == 'part'][0]
_part_ct = _part.find(XS + 'complexType')
_measure = [e for e in _part_ct.iter(XS + 'element') if e.get('name') == 'measure'][0]
_measure_ct = _measure.find(XS + 'complexType')
_directive = [e for e in ctypes['attributes'].iter(XS + 'element') if e.get('name') == 'directive'][0]
_directive_ct = _directive.find(XS + 'complexType')
ANON = {'@score-partwise': _sp_ct, '@part': _part_ct, '@measure': _measure_ct, '@directive': _directive_ct}
ALL_CT = dict(ctypes)
ALL_CT.update(ANON)


# ---------------------------------------------------------------------------------------------------------------------
# content models

def _occ(e):
    mi = int(e.get('minOccurs', '1'))
    ma = e.get('maxOccurs', '1')
    return mi, (None if ma == 'unbounded' else int(ma))


def _particle(e):
    t = _local(e.tag)
    if t == 'element':
        r = ('sym', e.get('name') or e.get('ref'))
    elif t in ('sequence', 'choice'):
        kids = [_particle(c) for c in e if _local(c.tag) in ('element', 'sequence', 'choice', 'group')]
        r = ('seq' if t == 'sequence' else 'alt', kids)
    elif t == 'group':
        g = groups[e.get('ref')]
        inner = [c for c in g if _local(c.tag) in ('sequence', 'choice')]
        assert len(inner) == 1
        r = _particle(inner[0])
    else:
        raise ValueError(t)
    mi, ma = _occ(e)
    if (mi, ma) != (1, 1):
        r = ('rep', r, mi, ma)
    return r


def content_model(ct):
    for c in ct:
        t = _local(c.tag)
        if t in ('sequence', 'choice', 'group'):
            return _particle(c)
        if t == 'complexContent':
            ext = c[0]
            assert _local(ext.tag) == 'extension'
            b = content_model(ctypes[ext.get('base')])
            extra = [x for x in ext if _local(x.tag) in ('sequence', 'choice', 'group')]
            assert not extra
            return b
    return None


MODELS = {k: content_model(ct) for k, ct in ALL_CT.items()}
MODELS = {k: v for k, v in MODELS.items() if v is not None}


def simple_content_base(ct):
    sc = ct.find(XS + 'simpleContent')
    if sc is None:
        return None
    return sc[0].get('base')


def is_mixed_or_text(ct):
    return simple_content_base(ct) is not None or ct.get('mixed') == 'true'


# regex helpers (derivatives)
EPS = ('seq', [])
EMPTY = ('alt', [])


def nullable(r):
    k = r[0]
    if k == 'sym': return False
    if k == 'seq': return all(nullable(x) for x in r[1])
    if k == 'alt': return any(nullable(x) for x in r[1])
    if k == 'rep': return r[2] == 0 or nullable(r[1])


def _mkseq(xs):
    out = []
    for x in xs:
        if x == EMPTY: return EMPTY
        if x[0] == 'seq': out.extend(x[1])
        else: out.append(x)
    return out[0] if len(out) == 1 else ('seq', out)


def _mkalt(xs):
    out = []
    for x in xs:
        if x[0] == 'alt':
            for y in x[1]:
                if y not in out: out.append(y)
        elif x not in out:
            out.append(x)
    return out[0] if len(out) == 1 else ('alt', out)


def deriv(r, a):
    k = r[0]
    if k == 'sym': return EPS if r[1] == a else EMPTY
    if k == 'alt': return _mkalt([deriv(x, a) for x in r[1]])
    if k == 'seq':
        xs = r[1]; res = []
        for i, x in enumerate(xs):
            d = deriv(x, a)
            if d != EMPTY: res.append(_mkseq([d] + list(xs[i + 1:])))
            if not nullable(x): break
        return _mkalt(res)
    if k == 'rep':
        _, x, mi, ma = r
        if ma is not None and ma == 0: return EMPTY
        d = deriv(x, a)
        if d == EMPTY: return EMPTY
        nmi = max(mi - 1, 0); nma = None if ma is None else ma - 1
        if nullable(x): nmi = 0
        rest = ('rep', x, nmi, nma) if (nma is None or nma > 0) else EPS
        return _mkseq([d, rest])


def nonempty(r):
    k = r[0]
    if k == 'sym': return True
    if k == 'seq': return all(nonempty(x) for x in r[1])
    if k == 'alt': return any(nonempty(x) for x in r[1])
    if k == 'rep': return r[2] == 0 or nonempty(r[1])


def matches(r, word):
    for a in word:
        r = deriv(r, a)
        if r == EMPTY: return False
    return nullable(r)


def viable_prefix(r, word):
    for a in word:
        r = deriv(r, a)
        if r == EMPTY: return False
    return nonempty(r)


def alphabet(r, acc=None):
    acc = [] if acc is None else acc
    if r[0] == 'sym':
        if r[1] not in acc: acc.append(r[1])
    elif r[0] == 'rep':
        alphabet(r[1], acc)
    else:
        for x in r[1]: alphabet(x, acc)
    return acc


def words_upto(r, n):
    out = []; al = alphabet(r)

    def go(r, w):
        if nullable(r): out.append(tuple(w))
        if len(w) == n: return
        for a in al:
            d = deriv(r, a)
            if d != EMPTY and nonempty(d): go(d, w + [a])
    go(r, [])
    return out


def parikh_completable(r, counts, slack=None):
    """exists w in L(r) with parikh(w) >= counts ?   decided exactly by an integer feasibility problem (z3)."""
    import z3
    s = z3.Solver()
    need = {a: z3.IntVal(c) for a, c in counts.items()}
    have = {}
    ctr = [0]

    def fresh():
        ctr[0] += 1
        v = z3.Int(f'x{ctr[0]}')
        s.add(v >= 0)
        return v

    def enc(r, n):
        """n = number of times this sub-expression is executed"""
        k = r[0]
        if k == 'sym':
            have.setdefault(r[1], []).append(n)
        elif k == 'seq':
            for x in r[1]: enc(x, n)
        elif k == 'alt':
            vs = [fresh() for _ in r[1]]
            s.add(z3.Sum(vs) == n if vs else n == 0)
            for v, x in zip(vs, r[1]): enc(x, v)
        elif k == 'rep':
            _, x, mi, ma = r
            m = fresh()
            s.add(m >= mi * n)
            if ma is not None: s.add(m <= ma * n)
            else: s.add(z3.Implies(n == 0, m == 0))
            enc(x, m)
    enc(r, z3.IntVal(1))
    for a, c in counts.items():
        if a not in have:
            if c > 0: return False
            continue
        s.add(z3.Sum(have[a]) >= c)
    return s.check() == z3.sat


# ---------------------------------------------------------------------------------------------------------------------
# attributes

XML_NS_PREFIX = {'xml:lang': ('xml:lang', 'xs:language'), 'xml:space': ('xml:space', '@xml:space')}


def _attrs_of(node, out):
    for c in node:
        t = _local(c.tag)
        if t == 'attribute':
            ref = c.get('ref')
            if ref:
                if ref.startswith('xml:'):
                    out.append((ref, XML_NS_PREFIX[ref][1], c.get('use') == 'required'))
                elif ref.startswith('xlink:'):
                    out.append((ref, '@' + ref, c.get('use') == 'required'))
                else:
                    raise ValueError(ref)
            else:
                out.append((c.get('name'), c.get('type'), c.get('use') == 'required'))
        elif t == 'attributeGroup':
            _attrs_of(agroups[c.get('ref')], out)


def attrs_of_ct(ct):
    out = []
    sc = ct.find(XS + 'simpleContent')
    cc = ct.find(XS + 'complexContent')
    if sc is not None:
        _attrs_of(sc[0], out)
    elif cc is not None:
        ext = cc[0]
        out.extend(attrs_of_ct(ctypes[ext.get('base')]))
        _attrs_of(ext, out)
    else:
        _attrs_of(ct, out)
    return out


ATTRS = {k: attrs_of_ct(ct) for k, ct in ALL_CT.items()}
AGROUP_ATTRS = {}
for _k, _g in agroups.items():
    _o = []
    _attrs_of(_g, _o)
    AGROUP_ATTRS[_k] = _o


# ---------------------------------------------------------------------------------------------------------------------
# element declarations of the partwise tree

def _collect_elements():
    out = []
    seen_ct = set()

    def from_particles(node, ctx):
        for e in node.iter(XS + 'element'):
            name = e.get('name')
            if name is None:
                continue
            anon = e.find(XS + 'complexType')
            if anon is not None:
                key = [k for k, v in ANON.items() if v is anon]
                tkey = key[0] if key else None
            else:
                tkey = e.get('type')
            out.append((name, tkey, ctx))
    for name, g in groups.items():
        from_particles(g, 'group:' + name)
    for name, ct in ctypes.items():
        # do not descend into nested anonymous complexTypes twice: iter() does descend, so restrict to own particles
        for c in ct:
            if _local(c.tag) in ('sequence', 'choice'):
                from_particles(c, 'type:' + name)
    for k, ct in ANON.items():
        for c in ct:
            if _local(c.tag) in ('sequence', 'choice'):
                for e in c.iter(XS + 'element'):
                    pass
    out.append(('score-partwise', '@score-partwise', 'top'))
    # score-timewise tree is not part of the library (partwise only)
    return out


ELEMENTS = _collect_elements()


_ET = None


def element_types():
    global _ET
    if _ET is None:
        _ET = _element_types()
    return _ET


def _element_types():
    """name -> set of type keys declared for that element name anywhere in the partwise schema"""
    d = {}
    for name, tkey, ctx in ELEMENTS:
        d.setdefault(name, set()).add(tkey)
    # the timewise-only declarations live under score-timewise, which _collect_elements never visits, except that
    # part/measure inside @score-partwise are visited through ctypes? no: they are anonymous. add them explicitly.
    d.setdefault('part', set()).add('@part')
    d.setdefault('measure', set()).add('@measure')
    d.setdefault('directive', set()).add('@directive')
    return d


# ---------------------------------------------------------------------------------------------------------------------
# simple types

BUILTIN = {'xs:string', 'xs:token', 'xs:decimal', 'xs:integer', 'xs:nonNegativeInteger', 'xs:positiveInteger', 'xs:date',
           'xs:NMTOKEN', 'xs:ID', 'xs:IDREF', 'xs:language', 'xs:anyURI', 'xs:NCName', 'xs:Name', 'xs:normalizedString'}


class SimpleDef:
    """Flattened lexical definition.
    prim: 'string' | 'decimal' | 'integer' | 'date' | 'union'
    ws: 'preserve' | 'replace' | 'collapse'
    enums: list[str] | None   (intersection along the derivation chain is applied)
    patterns: list[str]       XSD patterns, ALL must match (one per derivation step)
    builtin_pattern: name of a built-in lexical class that must also match ('NMTOKEN','Name','NCName','language', None)
    min_incl, max_incl, min_excl, max_excl: decimal strings or None;  min_length: int | None
    members: list[SimpleDef] for unions
    """

    def __init__(self, name):
        self.name = name
        self.prim = None
        self.ws = None
        self.enums = None
        self.patterns = []
        self.builtin_pattern = None
        self.min_incl = self.max_incl = self.min_excl = self.max_excl = None
        self.min_length = None
        self.members = []

    def clone(self, name):
        d = SimpleDef(name)
        d.__dict__.update({k: (list(v) if isinstance(v, list) else v) for k, v in self.__dict__.items()})
        d.name = name
        return d

    def __repr__(self):
        return f'SimpleDef({self.__dict__})'


def _builtin_def(n):
    d = SimpleDef(n)
    if n == 'xs:string':
        d.prim, d.ws = 'string', 'preserve'
    elif n == 'xs:normalizedString':
        d.prim, d.ws = 'string', 'replace'
    elif n == 'xs:token':
        d.prim, d.ws = 'string', 'collapse'
    elif n in ('xs:NMTOKEN', 'xs:Name', 'xs:NCName', 'xs:ID', 'xs:IDREF', 'xs:language'):
        # the six built-ins the package models in xml.xsd: the vendored xml.xsd is the reference (pattern chain)
        d.prim, d.ws = 'string', 'collapse'
        node = [s_ for s_ in xml_root.findall(XS + 'simpleType') if s_.get('name') == n[3:]][0]
        while node is not None:
            r_ = node.find(XS + 'restriction')
            d.patterns.extend(c.get('value') for c in r_ if _local(c.tag) == 'pattern')
            b_ = r_.get('base')
            nxt = [s_ for s_ in xml_root.findall(XS + 'simpleType') if 'xs:' + s_.get('name') == b_]
            node = nxt[0] if nxt else None
    elif n == 'xs:anyURI':
        d.prim, d.ws = 'string', 'collapse'
    elif n == 'xs:decimal':
        d.prim, d.ws = 'decimal', 'collapse'
    elif n == 'xs:integer':
        d.prim, d.ws = 'integer', 'collapse'
    elif n == 'xs:nonNegativeInteger':
        d.prim, d.ws = 'integer', 'collapse'
        d.min_incl = '0'
    elif n == 'xs:positiveInteger':
        d.prim, d.ws = 'integer', 'collapse'
        d.min_incl = '1'
    elif n == 'xs:date':
        d.prim, d.ws = 'date', 'collapse'
    else:
        raise KeyError(n)
    return d


_cache = {}


def _tighter(old, new, lower):
    if old is None: return new
    from fractions import Fraction
    a, b = Fraction(old), Fraction(new)
    return new if ((b > a) if lower else (b < a)) else old


def simple_def(name):
    if name in _cache:
        return _cache[name]
    if name in BUILTIN:
        d = _builtin_def(name)
    else:
        d = _from_node(stypes[name], name)
    _cache[name] = d
    return d


def _from_node(st, name):
    r = st.find(XS + 'restriction')
    u = st.find(XS + 'union')
    if r is not None:
        d = simple_def(r.get('base')).clone(name)
        enums = [c.get('value') for c in r if _local(c.tag) == 'enumeration']
        if enums:
            d.enums = enums if d.enums is None else [e for e in enums if e in d.enums]
        pats = [c.get('value') for c in r if _local(c.tag) == 'pattern']
        if pats:
            # several pattern facets in ONE restriction step are OR-ed
            d.patterns.append('|'.join(f'({p})' for p in pats) if len(pats) > 1 else pats[0])
        for c in r:
            t = _local(c.tag); v = c.get('value')
            if t == 'minInclusive': d.min_incl = _tighter(d.min_incl, v, True)
            elif t == 'maxInclusive': d.max_incl = _tighter(d.max_incl, v, False)
            elif t == 'minExclusive': d.min_excl = _tighter(d.min_excl, v, True)
            elif t == 'maxExclusive': d.max_excl = _tighter(d.max_excl, v, False)
            elif t == 'minLength': d.min_length = int(v)
            elif t == 'whiteSpace': d.ws = v
            elif t in ('enumeration', 'pattern', 'annotation'): pass
            else: raise ValueError(('facet', t))
        return d
    if u is not None:
        d = SimpleDef(name)
        d.prim = 'union'
        d.ws = 'collapse'
        for m in (u.get('memberTypes') or '').split():
            d.members.append(simple_def(m))
        for i, anon in enumerate(u.findall(XS + 'simpleType')):
            d.members.append(_from_node(anon, f'{name}#anon{i}'))
        return d
    raise ValueError(name)


SIMPLE = {n: simple_def(n) for n in stypes}
# types defined only in xml.xsd / by the library as stand-ins for XML Schema built-ins
for _b in sorted(BUILTIN):
    SIMPLE[_b] = simple_def(_b)
# xml:space is an anonymous enumeration in xml.xsd
_sp = SimpleDef('@xml:space'); _sp.prim, _sp.ws, _sp.enums, _sp.builtin_pattern = 'string', 'collapse', ['default', 'preserve'], 'NCName'
SIMPLE['@xml:space'] = _sp


def element_simple_type(tkey):
    """for an element type key: the simple type name governing its text content, '' if none (empty / element-only)"""
    if tkey in SIMPLE:
        return tkey
    ct = ALL_CT.get(tkey)
    if ct is None:
        return None
    b = simple_content_base(ct)
    return b if b is not None else ''
