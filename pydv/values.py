"""Symbolic Python values by tag, and the assumed contracts of the built-ins that turn values into text and back.

Tags partition 'every Python value' as far as the library can distinguish them through isinstance / comparison:
  none | bool | int | float (finite) | nan | inf | -inf | str | object (anything else; represented by a bare object())
"""
import z3
from . import engine as E
from . import lex

TAGS = ['none', 'bool', 'int', 'float', 'nan', 'inf', '-inf', 'str', 'object']


class Other:
    """stands for a value of any type the library does not know"""

    def __repr__(self):
        return '<object>'


def make(tag, name='v'):
    """returns (python value or proxy, z3 term or None). must be called inside a running exploration (needs E.ctx)."""
    if tag == 'none':
        return None, None
    if tag == 'bool':
        t = z3.Int(name)
        E.assume(z3.And(t >= 0, t <= 1))
        return E.SymInt(t, pytype=bool), t
    if tag == 'int':
        t = z3.Int(name)
        return E.SymInt(t), t
    if tag == 'float':
        t = z3.Real(name)
        return E.SymReal(t), t
    if tag == 'nan':
        return float('nan'), None
    if tag == 'inf':
        return float('inf'), None
    if tag == '-inf':
        return float('-inf'), None
    if tag == 'str':
        t = z3.String(name)
        return E.SymStr(t), t
    if tag == 'object':
        return Other(), None
    raise KeyError(tag)


def concretize(tag, term, model):
    """python value for the model (used for replays / native cross-check)"""
    if tag == 'none': return None
    if tag == 'nan': return float('nan')
    if tag == 'inf': return float('inf')
    if tag == '-inf': return float('-inf')
    if tag == 'object': return Other()
    val = model.eval(term, model_completion=True)
    if tag == 'bool':
        return bool(val.as_long())
    if tag == 'int':
        return val.as_long()
    if tag == 'float':
        if z3.is_rational_value(val):
            return val.numerator_as_long() / val.denominator_as_long()
        return float(val.approx(20).as_fraction())
    if tag == 'str':
        return val.as_string() if not hasattr(val, 'as_string') else _unescape(val.as_string())
    raise KeyError(tag)


def _unescape(s):
    # z3 prints non-printable / non-ascii chars as \u{XXXX}
    import re
    return re.sub(r'\\u\{([0-9a-fA-F]+)\}', lambda m: chr(int(m.group(1), 16)), s)


def py_literal(tag, value):
    if tag == 'nan': return "float('nan')"
    if tag == 'inf': return "float('inf')"
    if tag == '-inf': return "float('-inf')"
    if tag == 'object': return 'object()'
    return repr(value)


# ---------------------------------------------------------------------------------------------------------------------
# assumed contract of float.__repr__ :  the text is a decimal numeral (no exponent)  iff  x == 0 or 1e-4 <= |x| < 1e16

def float_repr_is_decimal(x):
    lo = z3.RealVal('1/10000')
    hi = z3.RealVal('10000000000000000')
    ax = z3.If(x >= 0, x, -x)
    return z3.Or(x == 0, z3.And(ax >= lo, ax < hi))
